package c01

import (
	"context"

	"github.com/cosi-project/runtime/pkg/resource"
	"github.com/cosi-project/runtime/pkg/state"
	"github.com/cosi-project/runtime/pkg/state/impl/inmem"
	"github.com/cosi-project/runtime/pkg/state/impl/namespaced"
	"github.com/cosi-project/runtime/zzverif/tres"
	"github.com/cosi-project/runtime/zzverif/verif"
)

func newState() state.State {
	return state.WrapCore(namespaced.NewState(inmem.Build))
}

// H_UpdateStep: one Update with arbitrary arguments from an arbitrary
// single-resource pre-state, against the sequential specification.
func H_UpdateStep() {
	ctx := context.Background()
	st := newState()
	ownerStored := verif.Atom("ownerStored")
	idStored := verif.Atom("idStored")
	idTarget := verif.Atom("idTarget")
	r := tres.NewA(tres.NS, idStored, "old")
	verif.Assert(st.Create(ctx, r, state.WithCreateOwner(ownerStored)) == nil, "create succeeds on empty state")
	if verif.Choose("finalizer", 2) == 1 {
		verif.Assert(st.AddFinalizer(ctx, r.Metadata(), "f") == nil, "addfinalizer")
	}
	if verif.Choose("phase", 2) == 1 {
		_, err := st.Teardown(ctx, r.Metadata(), state.WithTeardownOwner(ownerStored))
		verif.Assert(err == nil, "teardown")
	}
	before, err := st.Get(ctx, r.Metadata())
	verif.Assert(err == nil, "get before")
	storedVer := before.Metadata().Version()
	storedPhase := before.Metadata().Phase()
	created := before.Metadata().Created()

	upd := tres.NewA(tres.NS, idTarget, "new")
	fresh := verif.Bool("suppliedIsCurrent")
	if fresh {
		upd.Metadata().SetVersion(storedVer)
	} else if verif.Choose("stale", 2) == 1 {
		upd.Metadata().SetVersion(storedVer.Next())
	}
	ownerCaller := verif.Atom("ownerCaller")
	opts := []state.UpdateOption{state.WithUpdateOwner(ownerCaller)}
	expAny, expPhase := false, resource.PhaseRunning
	switch verif.Choose("expectedPhase", 3) {
	case 1:
		opts = append(opts, state.WithExpectedPhaseAny())
		expAny = true
	case 2:
		opts = append(opts, state.WithExpectedPhase(resource.PhaseTearingDown))
		expPhase = resource.PhaseTearingDown
	}

	uerr := st.Update(ctx, upd, opts...)

	exists := idTarget == idStored
	ownerOK := ownerCaller == ownerStored
	verOK := fresh
	phaseOK := expAny || storedPhase == expPhase
	should := exists && ownerOK && verOK && phaseOK
	verif.Observe("update ok", uerr == nil)
	verif.Assert((uerr == nil) == should, "update succeeds iff exists, owner, version and phase match")

	after, err := st.Get(ctx, r.Metadata())
	verif.Assert(err == nil, "stored resource still readable")
	if uerr == nil {
		verif.Cover("update ok")
		verif.Assert(after.Metadata().Version().Equal(storedVer.Next()), "version bumped by exactly one")
		verif.Assert(upd.Metadata().Version().Equal(storedVer.Next()), "new version written back to the caller")
		verif.Assert(after.Metadata().Created().Equal(created), "creation time kept")
		verif.Assert(tres.SpecOf(after).S == "new", "content replaced")
	} else {
		verif.Assert(after.Metadata().Version().Equal(storedVer), "failed update leaves version")
		verif.Assert(tres.SpecOf(after).S == "old", "failed update leaves content")
		verif.Assert(after.Metadata().Owner() == ownerStored, "failed update leaves owner")
		verif.Assert(after.Metadata().Phase() == storedPhase, "failed update leaves phase")
		nf, oc, pc, c := state.IsNotFoundError(uerr), state.IsOwnerConflictError(uerr), state.IsPhaseConflictError(uerr), state.IsConflictError(uerr)
		switch {
		case !exists:
			verif.Cover("not found")
			verif.Assert(nf, "absent resource is reported as not-found")
		case oc:
			verif.Cover("owner conflict")
			verif.Assert(!ownerOK, "owner conflict only if the owner differs")
			verif.Assert(c, "owner conflict is a conflict")
		case pc:
			verif.Cover("phase conflict")
			verif.Assert(!phaseOK, "phase conflict only if the phase differs")
			verif.Assert(c, "phase conflict is a conflict")
		default:
			verif.Cover("version conflict")
			verif.Assert(c && !nf, "remaining failure is a (version) conflict")
			verif.Assert(!verOK, "version conflict only if the version differs")
		}
		// qualified predicates must classify without panicking
		verif.Case("qualified predicates")
		switch verif.Choose("qualifier", 3) {
		case 1:
			q := state.IsConflictError(uerr, state.WithResourceType(tres.TypeA))
			verif.Assert(q == c, "type-qualified conflict predicate agrees for the matching type")
		case 2:
			q := state.IsConflictError(uerr, state.WithResourceNamespace("other"))
			verif.Assert(!q, "namespace-qualified predicate rejects another namespace")
		}
	}
}

// ---- sequential specification (the oracle) ----

type sres struct {
	id, owner string
	version   uint64
	phase     resource.Phase
	fin       bool // finalizer "f" pending
	s         string
}

type spec struct{ items []sres }

const (
	okClass = iota
	notFound
	conflict // already exists / version conflict / pending finalizers
	ownerConflict
	phaseConflict
)

func (m *spec) find(id string) int {
	for i := range m.items {
		if m.items[i].id == id {
			return i
		}
	}
	return -1
}

func (m *spec) create(id, owner, s string) int {
	if m.find(id) >= 0 {
		return conflict
	}
	m.items = append(m.items, sres{id: id, owner: owner, version: 1, phase: resource.PhaseRunning, s: s})
	return okClass
}

func (m *spec) destroy(id, owner string) int {
	i := m.find(id)
	switch {
	case i < 0:
		return notFound
	case m.items[i].owner != owner:
		return ownerConflict
	case m.items[i].fin:
		return conflict
	}
	m.items = append(m.items[:i:i], m.items[i+1:]...)
	return okClass
}

// update: returns the set of violated preconditions (as flags) or applies the update
func (m *spec) update(id, owner string, versionCurrent bool, expPhase *resource.Phase, newS string, newPhase resource.Phase, newFin bool) (exists, ownerOK, verOK, phaseOK bool) {
	i := m.find(id)
	if i < 0 {
		return false, false, false, false
	}
	it := &m.items[i]
	exists = true
	ownerOK = it.owner == owner
	verOK = versionCurrent
	phaseOK = expPhase == nil || *expPhase == it.phase
	if ownerOK && verOK && phaseOK {
		it.version++
		it.s, it.phase, it.fin = newS, newPhase, newFin
	}
	return
}

func classOf(err error) int {
	switch {
	case err == nil:
		return okClass
	case state.IsNotFoundError(err):
		return notFound
	case state.IsOwnerConflictError(err):
		return ownerConflict
	case state.IsPhaseConflictError(err):
		return phaseConflict
	case state.IsConflictError(err):
		return conflict
	}
	return -1
}

func sameAsSpec(r resource.Resource, it sres) bool {
	md := r.Metadata()
	return verif.And(md.ID() == it.id, md.Owner() == it.owner, md.Version().Value() == it.version, md.Phase() == it.phase, md.Finalizers().Has("f") == it.fin, tres.SpecOf(r).S == it.s)
}

// compare every observable of the store with the model
func checkState(ctx context.Context, st state.State, m *spec, ids []string) {
	for _, id := range ids {
		r, err := st.Get(ctx, resource.NewMetadata(tres.NS, tres.TypeA, id, resource.VersionUndefined))
		i := m.find(id)
		if i < 0 {
			verif.Assert(err != nil && state.IsNotFoundError(err), "Get of an absent resource is not-found")
		} else {
			verif.Assert(err == nil, "Get of a present resource succeeds")
			verif.Assert(sameAsSpec(r, m.items[i]), "Get returns the last committed value")
		}
	}
	l, err := st.List(ctx, resource.NewMetadata(tres.NS, tres.TypeA, "", resource.VersionUndefined))
	verif.Assert(err == nil && len(l.Items) == len(m.items), "List returns exactly the present resources")
	for _, r := range l.Items {
		i := m.find(r.Metadata().ID())
		verif.Assert(i >= 0 && sameAsSpec(r, m.items[i]), "every listed resource is the last committed value")
	}
}

var bothPhases = []resource.Phase{resource.PhaseRunning, resource.PhaseTearingDown}

// H_History: every sequence of <=3 (quick) / <=4 (thorough) CRUD calls with
// arbitrary arguments from the empty state agrees with the sequential specification.
func H_History() {
	ctx := context.Background()
	var st state.State
	seeded := verif.Tier() == "thorough" && verif.Choose("seeded", 2) == 1
	if seeded || verif.Choose("wrapper", 2) == 0 {
		st = newState()
	} else {
		st = state.WrapCore(inmem.NewState(tres.NS))
	}
	steps := 3
	ids := []string{verif.Atom("idA"), verif.Atom("idB")}
	verif.Assume(ids[0] != ids[1])
	m := &spec{}
	if seeded {
		// thorough: also every 4-call history (on the namespaced wrapper) whose first call is a
		// successful Create - of idA without loss of generality, both ids being arbitrary; a first call
		// that fails on the empty state changes nothing, so those are the 3-call histories again
		owner := verif.Atom("owner0")
		verif.Assert(st.Create(ctx, tres.NewA(tres.NS, ids[0], "c"), state.WithCreateOwner(owner)) == nil && m.create(ids[0], owner, "c") == okClass, "Create on the empty state succeeds")
		checkState(ctx, st, m, ids)
		verif.Cover("four calls")
	}
	n := 1 + verif.Choose("nsteps", steps)
	for k := 0; k < n; k++ {
		id := verif.Atom("id")
		verif.Assume(verif.Or(id == ids[0], id == ids[1]))
		owner := verif.Atom("owner")
		p := resource.NewMetadata(tres.NS, tres.TypeA, id, resource.VersionUndefined)
		switch verif.Choose("op", 3) {
		case 0:
			verif.Case("Create")
			r := tres.NewA(tres.NS, id, "c")
			err := st.Create(ctx, r, state.WithCreateOwner(owner))
			want := m.create(id, owner, "c")
			verif.Assert(classOf(err) == want, "Create succeeds iff absent, else conflict")
			if err == nil {
				verif.Assert(r.Metadata().Version().Value() == 1 && r.Metadata().Owner() == owner, "Create stores version 1 under the requested owner and writes it back")
				verif.Cover("created")
			} else {
				verif.Cover("create conflict")
			}
		case 1:
			verif.Case("Destroy")
			err := st.Destroy(ctx, p, state.WithDestroyOwner(owner))
			want := m.destroy(id, owner)
			verif.Assert(classOf(err) == want, "Destroy succeeds iff present, owner matches and no finalizer is pending")
			if err == nil {
				verif.Cover("destroyed")
			}
		case 2:
			verif.Case("Update")
			cur, gerr := st.Get(ctx, p)
			var upd *tres.A
			versionCurrent := false
			if gerr == nil && verif.Choose("versionFresh", 2) == 1 {
				upd = cur.DeepCopy().(*tres.A)
				versionCurrent = true
			} else {
				upd = tres.NewA(tres.NS, id, "")
				if gerr == nil {
					upd.Metadata().SetVersion(cur.Metadata().Version().Next()) // stale/future version
				}
			}
			upd.TypedSpec().S = "u"
			newPhase := bothPhases[verif.Choose("newPhase", 2)]
			upd.Metadata().SetPhase(newPhase)
			newFin := verif.Choose("newFinalizer", 2) == 1
			if newFin {
				upd.Metadata().Finalizers().Add("f")
			} else {
				upd.Metadata().Finalizers().Remove("f")
			}
			opts := []state.UpdateOption{state.WithUpdateOwner(owner)}
			var exp *resource.Phase
			switch verif.Choose("expectedPhase", 3) {
			case 0:
				exp = &bothPhases[0]
			case 1:
				opts = append(opts, state.WithExpectedPhaseAny())
			case 2:
				opts = append(opts, state.WithExpectedPhase(resource.PhaseTearingDown))
				exp = &bothPhases[1]
			}
			// an Update must keep the owner the caller read; a freshly built object names no owner
			if !versionCurrent {
				upd.Metadata().SetOwner(owner) //nolint:errcheck
			}
			err := st.Update(ctx, upd, opts...)
			exists, ownerOK, verOK, phaseOK := m.update(id, owner, versionCurrent, exp, "u", newPhase, newFin)
			should := exists && ownerOK && verOK && phaseOK
			verif.Assert((err == nil) == should, "Update succeeds iff exists, owner, version and expected phase match")
			if err == nil {
				verif.Cover("updated")
			} else {
				c := classOf(err)
				verif.Assert(c > 0, "Update failure is classifiable")
				verif.Assert(verif.Or(verif.And(c == notFound, !exists), verif.And(c == ownerConflict, exists, !ownerOK), verif.And(c == conflict, exists, !verOK), verif.And(c == phaseConflict, exists, !phaseOK)), "the reported error class is one of the violated preconditions")
			}
		}
		checkState(ctx, st, m, ids)
	}
}

// H_Concurrent2: two threads, one CRUD call each, all schedules within the delay bound:
// results and final state equal the sequential specification in one of the two orders.
func H_Concurrent2() {
	ctx := context.Background()
	st := newState()
	ids := []string{verif.Atom("idA"), verif.Atom("idB")}
	verif.Assume(ids[0] != ids[1])
	type call struct {
		op        int
		id, owner string
		err       error
		got       resource.Resource
	}
	mk := func() *call {
		c := &call{op: verif.Choose("op", 3), id: verif.Atom("id"), owner: verif.Atom("owner")}
		verif.Assume(verif.Or(c.id == ids[0], c.id == ids[1]))
		return c
	}
	// optional pre-existing resource (forces the namespace/collection to exist already)
	pre := verif.Choose("preexisting", 2) == 1
	preOwner := ""
	if pre {
		preOwner = verif.Atom("preOwner")
		verif.Assert(st.Create(ctx, tres.NewA(tres.NS, ids[0], "pre"), state.WithCreateOwner(preOwner)) == nil, "pre-state create")
	}
	run := func(c *call) {
		p := resource.NewMetadata(tres.NS, tres.TypeA, c.id, resource.VersionUndefined)
		switch c.op {
		case 0:
			c.err = st.Create(ctx, tres.NewA(tres.NS, c.id, "c"), state.WithCreateOwner(c.owner))
		case 1:
			c.err = st.Destroy(ctx, p, state.WithDestroyOwner(c.owner))
		case 2:
			c.got, c.err = st.Get(ctx, p)
		}
	}
	a, b := mk(), mk()
	go run(a)
	go run(b)
	verif.Quiesce()
	// sequential replay in a given order; returns whether results match
	replay := func(first, second *call) bool {
		m := &spec{}
		if pre {
			m.create(ids[0], preOwner, "pre")
		}
		ok := true
		for _, c := range []*call{first, second} {
			switch c.op {
			case 0:
				ok = verif.And(ok, classOf(c.err) == m.create(c.id, c.owner, "c"))
			case 1:
				ok = verif.And(ok, classOf(c.err) == m.destroy(c.id, c.owner))
			case 2:
				i := m.find(c.id)
				if i < 0 {
					ok = verif.And(ok, classOf(c.err) == notFound)
				} else {
					ok = verif.And(ok, c.err == nil && sameAsSpec(c.got, m.items[i]))
				}
			}
		}
		// final state
		for _, id := range ids {
			r, err := st.Get(ctx, resource.NewMetadata(tres.NS, tres.TypeA, id, resource.VersionUndefined))
			i := m.find(id)
			if i < 0 {
				ok = verif.And(ok, err != nil)
			} else {
				ok = verif.And(ok, err == nil && sameAsSpec(r, m.items[i]))
			}
		}
		return ok
	}
	verif.Assert(verif.Or(replay(a, b), replay(b, a)), "two concurrent calls are equivalent to one of the two sequential orders (results and final state)")
	verif.Cover("two concurrent calls")
}

// H_Routing: an operation on one (namespace, type) never changes what another
// (namespace, type) observes unless the pairs are equal (namespaced/inmem routing).
func H_Routing() {
	ctx := context.Background()
	st := newState()
	ns1, ty1 := verif.Atom("ns1"), verif.Atom("type1")
	ns2, ty2 := verif.Atom("ns2"), verif.Atom("type2")
	id := verif.Atom("id")
	owner := verif.Atom("owner")
	verif.Assert(st.Create(ctx, tres.NewAt(ns1, ty1, id, "one"), state.WithCreateOwner(owner)) == nil, "create in the first collection")
	samePair := verif.And(ns1 == ns2, ty1 == ty2)
	p2 := resource.NewMetadata(ns2, ty2, id, resource.VersionUndefined)
	// what the second pair observes
	r2, err2 := st.Get(ctx, p2)
	verif.Assert(verif.Iff(err2 == nil, samePair), "a resource is visible exactly under its own (namespace, type)")
	l2, lerr := st.List(ctx, p2)
	verif.Assert(lerr == nil && verif.Iff(len(l2.Items) == 1, samePair), "List of another (namespace, type) is unaffected")
	if err2 == nil {
		verif.Assert(tres.SpecOf(r2).S == "one", "same pair: same resource")
		verif.Cover("same pair")
	} else {
		verif.Assert(state.IsNotFoundError(err2), "other pair: not found")
		verif.Cover("different pair")
		// a second resource with the same id in the other collection is independent
		verif.Assert(st.Create(ctx, tres.NewAt(ns2, ty2, id, "two"), state.WithCreateOwner(owner)) == nil, "the same id can exist under another (namespace, type)")
		verif.Assert(st.Destroy(ctx, p2, state.WithDestroyOwner(owner)) == nil, "and be destroyed there")
		r1, err1 := st.Get(ctx, resource.NewMetadata(ns1, ty1, id, resource.VersionUndefined))
		verif.Assert(err1 == nil && tres.SpecOf(r1).S == "one" && r1.Metadata().Version().Value() == 1, "operations on another (namespace, type) leave the first resource untouched")
	}
}
