package c01

import (
	"context"

	"github.com/cosi-project/runtime/pkg/resource"
	"github.com/cosi-project/runtime/pkg/state"
	"github.com/cosi-project/runtime/pkg/state/impl/inmem"
	"github.com/cosi-project/runtime/pkg/state/impl/namespaced"
	"github.com/cosi-project/runtime/zzverif/tres"
	"github.com/cosi-project/runtime/zzverif/verif"
)

func newState() state.State {
	return state.WrapCore(namespaced.NewState(inmem.Build))
}

// H_UpdateStep: one Update with arbitrary arguments from an arbitrary
// single-resource pre-state, against the sequential specification.
func H_UpdateStep() {
	ctx := context.Background()
	st := newState()
	ownerStored := verif.Atom("ownerStored")
	idStored := verif.Atom("idStored")
	idTarget := verif.Atom("idTarget")
	r := tres.NewA(tres.NS, idStored, "old")
	verif.Assert(st.Create(ctx, r, state.WithCreateOwner(ownerStored)) == nil, "create succeeds on empty state")
	if verif.Choose("finalizer", 2) == 1 {
		verif.Assert(st.AddFinalizer(ctx, r.Metadata(), "f") == nil, "addfinalizer")
	}
	if verif.Choose("phase", 2) == 1 {
		_, err := st.Teardown(ctx, r.Metadata(), state.WithTeardownOwner(ownerStored))
		verif.Assert(err == nil, "teardown")
	}
	before, err := st.Get(ctx, r.Metadata())
	verif.Assert(err == nil, "get before")
	storedVer := before.Metadata().Version()
	storedPhase := before.Metadata().Phase()
	created := before.Metadata().Created()

	upd := tres.NewA(tres.NS, idTarget, "new")
	fresh := verif.Bool("suppliedIsCurrent")
	if fresh {
		upd.Metadata().SetVersion(storedVer)
	} else if verif.Choose("stale", 2) == 1 {
		upd.Metadata().SetVersion(storedVer.Next())
	}
	ownerCaller := verif.Atom("ownerCaller")
	opts := []state.UpdateOption{state.WithUpdateOwner(ownerCaller)}
	expAny, expPhase := false, resource.PhaseRunning
	switch verif.Choose("expectedPhase", 3) {
	case 1:
		opts = append(opts, state.WithExpectedPhaseAny())
		expAny = true
	case 2:
		opts = append(opts, state.WithExpectedPhase(resource.PhaseTearingDown))
		expPhase = resource.PhaseTearingDown
	}

	uerr := st.Update(ctx, upd, opts...)

	exists := idTarget == idStored
	ownerOK := ownerCaller == ownerStored
	verOK := fresh
	phaseOK := expAny || storedPhase == expPhase
	should := exists && ownerOK && verOK && phaseOK
	verif.Observe("update ok", uerr == nil)
	verif.Assert((uerr == nil) == should, "update succeeds iff exists, owner, version and phase match")

	after, err := st.Get(ctx, r.Metadata())
	verif.Assert(err == nil, "stored resource still readable")
	if uerr == nil {
		verif.Cover("update ok")
		verif.Assert(after.Metadata().Version().Equal(storedVer.Next()), "version bumped by exactly one")
		verif.Assert(upd.Metadata().Version().Equal(storedVer.Next()), "new version written back to the caller")
		verif.Assert(after.Metadata().Created().Equal(created), "creation time kept")
		verif.Assert(tres.SpecOf(after).S == "new", "content replaced")
	} else {
		verif.Assert(after.Metadata().Version().Equal(storedVer), "failed update leaves version")
		verif.Assert(tres.SpecOf(after).S == "old", "failed update leaves content")
		verif.Assert(after.Metadata().Owner() == ownerStored, "failed update leaves owner")
		verif.Assert(after.Metadata().Phase() == storedPhase, "failed update leaves phase")
		nf, oc, pc, c := state.IsNotFoundError(uerr), state.IsOwnerConflictError(uerr), state.IsPhaseConflictError(uerr), state.IsConflictError(uerr)
		switch {
		case !exists:
			verif.Cover("not found")
			verif.Assert(nf, "absent resource is reported as not-found")
		case oc:
			verif.Cover("owner conflict")
			verif.Assert(!ownerOK, "owner conflict only if the owner differs")
			verif.Assert(c, "owner conflict is a conflict")
		case pc:
			verif.Cover("phase conflict")
			verif.Assert(!phaseOK, "phase conflict only if the phase differs")
			verif.Assert(c, "phase conflict is a conflict")
		default:
			verif.Cover("version conflict")
			verif.Assert(c && !nf, "remaining failure is a (version) conflict")
			verif.Assert(!verOK, "version conflict only if the version differs")
		}
		// qualified predicates must classify without panicking
		verif.Case("qualified predicates")
		switch verif.Choose("qualifier", 3) {
		case 1:
			q := state.IsConflictError(uerr, state.WithResourceType(tres.TypeA))
			verif.Assert(q == c, "type-qualified conflict predicate agrees for the matching type")
		case 2:
			q := state.IsConflictError(uerr, state.WithResourceNamespace("other"))
			verif.Assert(!q, "namespace-qualified predicate rejects another namespace")
		}
	}
}
