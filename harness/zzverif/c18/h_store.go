package c18

import (
	"time"

	"github.com/cosi-project/runtime/pkg/resource"
	"github.com/cosi-project/runtime/pkg/state/impl/store"
	"github.com/cosi-project/runtime/zzverif/tres"
	"github.com/cosi-project/runtime/zzverif/verif"
)

func stampMenu() []time.Time {
	return []time.Time{
		{},                                     // the zero time (metadata that never went through a store)
		time.Unix(0, 0).UTC(),                  // the epoch
		time.Unix(1700000000, 123456789).UTC(), // an ordinary instant with nanoseconds
		time.Unix(-1, 999999999).UTC(),         // just before the epoch
		time.Unix(253402300799, 0).UTC(),       // the last second of year 9999
	}
}

var versions = []uint64{1, 2, 1<<63 - 1, 1 << 63, 1<<64 - 1}

// H_StoreRoundTrip: a resource survives the store marshaler (resource -> protobuf.Resource ->
// v1alpha1.Resource -> vtproto bytes and back) unchanged: namespace, type, id, version, owner, phase,
// finalizers, labels, annotations, BOTH timestamps and the spec.
func H_StoreRoundTrip() {
	tres.RegisterProto()
	// the fields are independent in the codec: one family varies timestamps and version, the other the rest
	timeFamily := verif.Choose("family", 2) == 0
	pick := func(name string, n int, vary bool) int {
		if vary {
			return verif.Choose(name, n)
		}
		return 0
	}
	r := tres.NewA(tres.NS, []string{"a", "", "id/with spaces"}[pick("id", 3, !timeFamily)], "")
	md := r.Metadata()
	md.SetVersion(resource.ZZVersion(versions[pick("version", len(versions), timeFamily)]))
	if pick("owned", 2, !timeFamily) == 1 {
		verif.Assert(md.SetOwner("owner") == nil, "owner set")
	}
	if pick("tearingDown", 2, !timeFamily) == 1 {
		md.SetPhase(resource.PhaseTearingDown)
	}
	for i, n := 0, pick("finalizers", 3, !timeFamily); i < n; i++ {
		md.Finalizers().Add([]string{"f1", "f2"}[i])
	}
	switch pick("labels", 3, !timeFamily) {
	case 1:
		md.Labels().Set("k", "v")
	case 2:
		md.Labels().Set("k", "")
		md.Labels().Set("", "empty key")
	}
	if pick("annotated", 2, !timeFamily) == 1 {
		md.Annotations().Set("a", "b")
	}
	stamps := stampMenu()
	created, updated := stamps[pick("created", len(stamps), timeFamily)], stamps[1+pick("updated", len(stamps)-1, timeFamily)]
	if timeFamily && verif.Choose("updatedZero", 2) == 1 {
		updated = stamps[0]
	}
	md.SetCreated(created)
	md.SetUpdated(updated)
	r.TypedSpec().N = int64(pick("specN", 3, !timeFamily))
	r.TypedSpec().S = []string{"", "content"}[pick("specS", 2, !timeFamily)]

	b, err := store.ProtobufMarshaler{}.MarshalResource(r)
	verif.Assert(err == nil, "a resource with a protobuf-capable spec is marshalled")
	back, err := store.ProtobufMarshaler{}.UnmarshalResource(b)
	verif.Assert(err == nil, "what the store marshaler wrote is read back")
	bm := back.Metadata()
	verif.Assert(bm.Namespace() == md.Namespace() && bm.Type() == md.Type() && bm.ID() == md.ID(), "identity survives the store marshaler")
	verif.Assert(bm.Version().Equal(md.Version()) && bm.Owner() == md.Owner() && bm.Phase() == md.Phase(), "version, owner and phase survive the store marshaler")
	verif.Assert(len(*bm.Finalizers()) == len(*md.Finalizers()) && bm.Finalizers().Has("f1") == md.Finalizers().Has("f1") && bm.Finalizers().Has("f2") == md.Finalizers().Has("f2"), "finalizers survive the store marshaler")
	verif.Assert(bm.Labels().Equal(*md.Labels()) && bm.Annotations().Equal(*md.Annotations()), "labels and annotations survive the store marshaler")
	verif.Assert(bm.Created().Equal(created) && bm.Created().IsZero() == created.IsZero(), "the creation time survives the store marshaler")
	verif.Assert(bm.Updated().Equal(updated) && bm.Updated().IsZero() == updated.IsZero(), "the update time survives the store marshaler")
	verif.Assert(tres.SpecOf(back) == tres.SpecOf(r), "the spec survives the store marshaler")
	verif.Assert(resource.Equal(r, back), "resource.Equal holds across the round trip")
	if created.IsZero() {
		verif.Cover("zero timestamp")
	}
	verif.Cover("round trip")
}
