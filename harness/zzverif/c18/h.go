package c18

import (
	"errors"

	"github.com/cosi-project/runtime/api/key_storage"
	"github.com/cosi-project/runtime/api/v1alpha1"

	"github.com/cosi-project/runtime/pkg/resource"
	"github.com/cosi-project/runtime/pkg/state/impl/store/compression"
	"github.com/cosi-project/runtime/zzverif/tres"
	"github.com/cosi-project/runtime/zzverif/verif"
)

// H_VersionText: the text form of every version parses back to the same version.
func H_VersionText() {
	var v resource.Version
	if verif.Choose("defined", 2) == 0 {
		v = resource.VersionUndefined
		verif.Cover("undefined version")
	} else {
		v = resource.ZZVersion(verif.Uint64("version"))
		verif.Cover("numeric version")
	}
	back, err := resource.ParseVersion(v.String())
	verif.Assert(err == nil, "the text form of a version parses")
	verif.Assert(back.Equal(v), "version text form parses back to the same value")
}

// H_VersionBytes: ParseVersion is total on arbitrary short texts, and whatever
// it accepts prints to a text that parses back to the same version.
func H_VersionBytes() {
	max := 3
	if verif.Tier() == "thorough" {
		max = 5
	}
	n := verif.Choose("len", max+1)
	s := verif.String("text", n)
	v, err := resource.ParseVersion(s)
	if err != nil {
		verif.Cover("rejected")
		return
	}
	verif.Cover("accepted")
	back, err2 := resource.ParseVersion(v.String())
	verif.Assert(err2 == nil && back.Equal(v), "an accepted version text denotes a version whose own text form parses back to it")
}

// H_PhaseText: phases round-trip through text; arbitrary texts are rejected or yield a phase.
func H_PhaseText() {
	for _, p := range []resource.Phase{resource.PhaseRunning, resource.PhaseTearingDown} {
		back, err := resource.ParsePhase(p.String())
		verif.Assert(err == nil && back == p, "phase text form parses back to the same phase")
	}
	lens := []int{0, 7, 11, 12}
	s := verif.String("text", lens[verif.Choose("len", len(lens))])
	p, err := resource.ParsePhase(s)
	if err == nil {
		verif.Assert(p.String() == s, "an accepted phase text is exactly the text form of the phase")
		verif.Cover("phase accepted")
	} else {
		verif.Cover("phase rejected")
	}
}

// ---- compression framing ----

// stubMarshaler produces/consumes raw bytes chosen by the harness.
type stubMarshaler struct {
	out  [][]byte // successive MarshalResource results
	next int
	got  [][]byte // what UnmarshalResource was handed
}

func (m *stubMarshaler) MarshalResource(resource.Resource) ([]byte, error) {
	b := m.out[m.next]
	m.next++
	return b, nil
}

func (m *stubMarshaler) UnmarshalResource(b []byte) (resource.Resource, error) {
	m.got = append(m.got, append([]byte(nil), b...))
	return tres.NewA(tres.NS, "x", "decoded"), nil
}

// modelCompressor satisfies the Compressor contract with a trivial coding.
type modelCompressor struct{}

func (modelCompressor) ID() byte { return 'm' }
func (modelCompressor) Compress(prefix, data []byte) ([]byte, error) {
	return append(append(append([]byte(nil), prefix...), 0xEE), data...), nil
}
func (modelCompressor) Decompress(data []byte) ([]byte, error) {
	if len(data) == 0 || data[0] != 0xEE {
		return nil, errors.New("corrupt")
	}
	return append([]byte(nil), data[1:]...), nil
}

func sameBytes(a, b []byte) bool {
	if len(a) != len(b) {
		return false
	}
	ok := true
	for i := range a {
		ok = verif.And(ok, a[i] == b[i])
	}
	return ok
}

// H_CompressionFraming: records of any content on both sides of the size
// threshold decode to exactly the bytes the underlying marshaler produced, also
// after later records were encoded with the same marshaler.
func H_CompressionFraming() {
	const minSize = 3
	var comp compression.Compressor = modelCompressor{}
	if verif.Choose("compressor", 2) == 1 {
		comp = compression.ZStd()
		verif.Cover("zstd wrapper")
	}
	under := &stubMarshaler{}
	lenA := 1 + verif.Choose("lenA", 5)
	lenB := 1 + verif.Choose("lenB", 5)
	a, b := verif.Bytes("a", lenA), verif.Bytes("b", lenB)
	// protobuf encodings never start with a zero byte (field number 0 is invalid)
	verif.Assume(verif.And(a[0] != 0, b[0] != 0))
	under.out = [][]byte{a, b}
	m := compression.NewMarshaler(under, comp, minSize)
	r := tres.NewA(tres.NS, "x", "payload")
	encA, err := m.MarshalResource(r)
	verif.Assert(err == nil, "marshal A")
	keepA := append([]byte(nil), a...)
	encB, err := m.MarshalResource(r)
	verif.Assert(err == nil, "marshal B")
	if lenA >= minSize {
		verif.Cover("above threshold")
		verif.Assert(len(encA) > 1 && encA[0] == 0 && encA[1] == comp.ID(), "compressed record is framed with the zero byte and the compressor id")
	} else {
		verif.Cover("below threshold")
		verif.Assert(sameBytes(encA, keepA), "small record is stored as is")
	}
	// decode the FIRST record after the second one was produced
	_, err = m.UnmarshalResource(encA)
	verif.Assert(err == nil, "the first record still decodes after a later marshal")
	verif.Assert(len(under.got) == 1 && sameBytes(under.got[0], keepA), "the underlying decoder receives exactly the bytes that were encoded")
	_, err = m.UnmarshalResource(encB)
	verif.Assert(err == nil && sameBytes(under.got[1], b), "the second record decodes to its own bytes")
	// unknown compressor id is rejected, not misread
	if lenA >= minSize {
		bad := append([]byte(nil), encA...)
		bad[1] = comp.ID() + 1
		_, err = m.UnmarshalResource(bad)
		verif.Assert(err != nil, "a record of an unknown compressor is rejected")
	}
}

// H_VTDecode: the generated wire decoders are total on arbitrary bytes
// (error or message, never a panic or an out-of-range access).
func H_VTDecode() {
	max := 4
	if verif.Tier() == "thorough" {
		max = 5 // 6 bytes reach a 5-byte varint of an int32 field, whose wrap-around the integer encoding rejects (UNSUPPORTED)
	}
	n := verif.Choose("len", max+1)
	b := verif.Bytes("wire", n)
	verif.SetUnwind(12)
	switch verif.Choose("message", 3) {
	case 0:
		verif.Case("v1alpha1.Metadata")
		var m v1alpha1.Metadata
		if err := m.UnmarshalVT(b); err == nil {
			verif.Cover("metadata decoded")
		}
	case 1:
		verif.Case("v1alpha1.Resource")
		var m v1alpha1.Resource
		if err := m.UnmarshalVT(b); err == nil {
			verif.Cover("resource decoded")
		}
	case 2:
		verif.Case("key_storage.Storage")
		var m key_storage.Storage
		if err := m.UnmarshalVT(b); err == nil {
			verif.Cover("storage decoded")
		}
	}
	verif.Cover("decoder returned")
}
