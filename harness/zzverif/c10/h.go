package c10

import (
	"context"
	"errors"
	"time"

	"github.com/cosi-project/runtime/pkg/resource"
	"github.com/cosi-project/runtime/pkg/state"
	"github.com/cosi-project/runtime/pkg/state/impl/inmem"
	"github.com/cosi-project/runtime/zzverif/tres"
	"github.com/cosi-project/runtime/zzverif/verif"
)

var errInjected = errors.New("injected backing store failure")

// fstore is a BackingStore whose every operation may fail (fault positions are
// nondeterministic choices) and which keeps the durable contents.
type fstore struct {
	durable    []resource.Resource // acknowledged contents, in insertion order
	faults     int                 // remaining fault budget
	calls      int
	lastFail   bool
	atPut      func() // called at the moment of a durable write
	loadFailAt int    // Load fails after delivering this many items (-1 = never)
}

func (s *fstore) find(id resource.ID) int {
	for i, r := range s.durable {
		if r.Metadata().ID() == id {
			return i
		}
	}
	return -1
}

func (s *fstore) fail() bool {
	s.lastFail = false
	if s.faults > 0 && verif.Choose("backing store fails", 2) == 1 {
		s.faults--
		s.lastFail = true
		verif.Cover("fault injected")
	}
	return s.lastFail
}

func (s *fstore) Put(_ context.Context, _ resource.Type, r resource.Resource) error {
	s.calls++
	if s.fail() {
		return errInjected
	}
	if s.atPut != nil {
		s.atPut()
	}
	c := r.DeepCopy()
	if i := s.find(c.Metadata().ID()); i >= 0 {
		s.durable[i] = c
	} else {
		s.durable = append(s.durable, c)
	}
	return nil
}

func (s *fstore) Destroy(_ context.Context, _ resource.Type, p resource.Pointer) error {
	s.calls++
	if s.fail() {
		return errInjected
	}
	if s.atPut != nil {
		s.atPut()
	}
	if i := s.find(p.ID()); i >= 0 {
		s.durable = append(s.durable[:i:i], s.durable[i+1:]...)
	}
	return nil
}

func (s *fstore) Load(_ context.Context, h inmem.LoadHandler) error {
	for k, r := range s.durable {
		if k == s.loadFailAt {
			s.loadFailAt = -1
			verif.Cover("load failed midway")
			return errInjected
		}
		if err := h(r.Metadata().Type(), r.DeepCopy()); err != nil {
			return err
		}
	}
	if s.loadFailAt == len(s.durable) {
		s.loadFailAt = -1
		return errInjected
	}
	return nil
}

func sameRes(a, b resource.Resource) bool {
	am, bm := a.Metadata(), b.Metadata()
	return verif.And(am.ID() == bm.ID(), am.Owner() == bm.Owner(), am.Version().Value() == bm.Version().Value(), am.Phase() == bm.Phase(),
		am.Finalizers().Has("f") == bm.Finalizers().Has("f"), len(*am.Finalizers()) == len(*bm.Finalizers()),
		am.Labels().Equal(*bm.Labels()), am.Annotations().Equal(*bm.Annotations()), am.Created().Equal(bm.Created()),
		tres.SpecOf(a) == tres.SpecOf(b))
}

func kind() resource.Metadata {
	return resource.NewMetadata(tres.NS, tres.TypeA, "", resource.VersionUndefined)
}

// memoryEqualsDurable: the in-memory contents and the durable contents are the same set of resources, field by field.
func memoryEqualsDurable(ctx context.Context, st state.State, s *fstore, label string) {
	l, err := st.List(ctx, kind())
	verif.Assert(err == nil, "list succeeds")
	verif.Assert(len(l.Items) == len(s.durable), label+": as many resources in memory as durable")
	for _, r := range l.Items {
		i := s.find(r.Metadata().ID())
		verif.Assert(i >= 0 && sameRes(r, s.durable[i]), label+": every resource in memory equals its durable copy (version, owner, phase, finalizers, labels, annotations, creation time, spec)")
	}
}

func snapshot(ctx context.Context, st state.State) []resource.Resource {
	l, _ := st.List(ctx, kind())
	return l.Items
}

func sameList(a, b []resource.Resource) bool {
	if len(a) != len(b) {
		return false
	}
	ok := true
	for i := range a {
		ok = verif.And(ok, sameRes(a[i], b[i]))
	}
	return ok
}

var ids = []resource.ID{"a", "b"}

// H_FaultyStore: histories of <=3 (quick) / <=4 (thorough) operations on a state
// backed by a store that may fail at any Put/Destroy/Load.
func H_FaultyStore() {
	ctx, cancel := context.WithCancel(context.Background())
	defer cancel()
	steps := 3 // both tiers; the thorough tier deepens the delay bound (4 steps exceed 500 000 paths)
	store := &fstore{faults: 2, loadFailAt: -1}
	st := state.WrapCore(inmem.NewStateWithOptions(inmem.WithBackingStore(store))(tres.NS))
	events := make(chan state.Event, 64)
	verif.Assert(st.WatchKind(ctx, kind(), events) == nil, "watch established")
	n := 1 + verif.Choose("nsteps", steps)
	for k := 0; k < n; k++ {
		verif.Quiesce()
		before := snapshot(ctx, st)
		durableBefore := append([]resource.Resource(nil), store.durable...)
		seen := len(events)
		callsBefore := store.calls
		eventAtPut := -1
		store.atPut = func() { eventAtPut = len(events) }
		id := ids[verif.Choose("id", 2)]
		owner := verif.Atom("opOwner") // may or may not be the stored owner
		p := resource.NewMetadata(tres.NS, tres.TypeA, id, resource.VersionUndefined)
		var err error
		switch verif.Choose("op", 3) {
		case 0:
			verif.Case("Create")
			r := tres.NewA(tres.NS, id, verif.Atom("content"))
			r.Metadata().Labels().Set("l", verif.Atom("label"))
			err = st.Create(ctx, r, state.WithCreateOwner(owner))
		case 1:
			verif.Case("Update")
			cur, gerr := st.Get(ctx, p)
			if gerr != nil {
				continue
			}
			if verif.Choose("freshObject", 2) == 1 {
				// an update built from scratch some time later: only the version (and the owner) are taken
				// over; the store must keep the original creation time, in memory and durably
				time.Sleep(time.Second)
				fresh := tres.NewA(tres.NS, id, "")
				fresh.Metadata().SetVersion(cur.Metadata().Version())
				fresh.Metadata().SetOwner(cur.Metadata().Owner()) //nolint:errcheck
				cur = fresh
				verif.Cover("update with a freshly built object")
			}
			cur.(*tres.A).TypedSpec().S = verif.Atom("content")
			if verif.Choose("addFinalizer", 2) == 1 {
				cur.Metadata().Finalizers().Add("f")
			}
			err = st.Update(ctx, cur, state.WithUpdateOwner(owner))
		case 2:
			verif.Case("Destroy")
			err = st.Destroy(ctx, p, state.WithDestroyOwner(owner))
		}
		store.atPut = nil
		verif.Quiesce()
		if store.calls > callsBefore && store.lastFail {
			verif.Cover("write rejected by the backing store")
			verif.Assert(err != nil, "if the backing store rejects the write the operation fails")
			verif.Assert(sameList(before, snapshot(ctx, st)), "a rejected write leaves the in-memory contents untouched")
			verif.Assert(len(events) == seen, "no watcher observes a rejected write")
			verif.Assert(len(store.durable) == len(durableBefore), "durable contents unchanged")
		} else if err == nil {
			verif.Cover("acknowledged")
			verif.Assert(store.calls == callsBefore+1, "an acknowledged write reached the backing store exactly once")
			verif.Assert(eventAtPut == seen, "the durable write precedes the event")
			verif.Assert(len(events) == seen+1, "an acknowledged write is observed exactly once")
		} else {
			verif.Assert(store.calls == callsBefore, "an operation refused by the state never reaches the backing store")
			verif.Assert(sameList(before, snapshot(ctx, st)), "a refused operation leaves memory untouched")
		}
		memoryEqualsDurable(ctx, st, store, "after every operation")
	}
	// restart: a new state over the same durable contents; Load may fail once at any position
	verif.Case("restart")
	if len(store.durable) > 0 {
		verif.Cover("restart with contents")
	}
	store.loadFailAt = verif.Choose("loadFailAt", len(store.durable)+2) - 1
	failing := store.loadFailAt >= 0
	store.faults = 0
	st2 := state.WrapCore(inmem.NewStateWithOptions(inmem.WithBackingStore(store))(tres.NS))
	_, lerr := st2.List(ctx, kind())
	if failing {
		verif.Assert(lerr != nil, "a failed load is reported to the first caller")
		_, lerr = st2.List(ctx, kind())
	}
	verif.Assert(lerr == nil, "the load is retried and succeeds")
	memoryEqualsDurable(ctx, st2, store, "after restart")
	// later operations behave as if no restart happened: versions continue
	if len(store.durable) > 0 {
		r0 := store.durable[0]
		cur, gerr := st2.Get(ctx, r0.Metadata())
		verif.Assert(gerr == nil, "persisted resource readable after restart")
		cur.(*tres.A).TypedSpec().N++
		uerr := st2.Update(ctx, cur, state.WithUpdateOwner(r0.Metadata().Owner()), state.WithExpectedPhaseAny())
		verif.Assert(uerr == nil && cur.Metadata().Version().Value() == r0.Metadata().Version().Value()+1, "after restart updates continue the version sequence")
		cerr := st2.Create(ctx, tres.NewA(tres.NS, r0.Metadata().ID(), "again"), state.WithCreateOwner("someone"))
		verif.Assert(state.IsConflictError(cerr), "after restart a persisted id cannot be created again")
	}
}

// H_FirstAccessAfterRestart: whatever the first call on a reopened state is - Get, List, a
// single-resource Watch, a kind watch with bootstrap, Create of a persisted id, Update - it sees the
// persisted contents (the lazy load is triggered by every entry point).
func H_FirstAccessAfterRestart() {
	ctx, cancel := context.WithCancel(context.Background())
	defer cancel()
	store := &fstore{loadFailAt: -1}
	first := state.WrapCore(inmem.NewStateWithOptions(inmem.WithBackingStore(store))(tres.NS))
	verif.Assert(first.Create(ctx, tres.NewA(tres.NS, "a", "persisted")) == nil, "written before the restart")
	r0, err := first.Get(ctx, resource.NewMetadata(tres.NS, tres.TypeA, "a", resource.VersionUndefined))
	verif.Assert(err == nil, "read back")
	r0.(*tres.A).TypedSpec().N = 7
	verif.Assert(first.Update(ctx, r0) == nil, "updated before the restart") // version 2
	st := state.WrapCore(inmem.NewStateWithOptions(inmem.WithBackingStore(store))(tres.NS))
	p := resource.NewMetadata(tres.NS, tres.TypeA, "a", resource.VersionUndefined)
	switch verif.Choose("firstAccess", 6) {
	case 0:
		verif.Case("Get")
		r, gerr := st.Get(ctx, p)
		verif.Assert(gerr == nil && r.Metadata().Version().Value() == 2 && tres.SpecOf(r).N == 7, "Get after restart returns the persisted value")
	case 1:
		verif.Case("List")
		l, lerr := st.List(ctx, kind())
		verif.Assert(lerr == nil && len(l.Items) == 1 && l.Items[0].Metadata().Version().Value() == 2, "List after restart returns the persisted contents")
	case 2:
		verif.Case("Watch")
		ch := make(chan state.Event, 4)
		verif.Assert(st.Watch(ctx, p, ch) == nil, "watch established")
		verif.Quiesce()
		verif.Assert(len(ch) == 1, "the watch starts with the current state")
		ev := <-ch
		verif.Assert(ev.Type == state.Created && ev.Resource.Metadata().Version().Value() == 2, "a watch that is the first access after restart starts with the persisted value")
	case 3:
		verif.Case("WatchKind")
		ch := make(chan state.Event, 4)
		verif.Assert(st.WatchKind(ctx, kind(), ch, state.WithBootstrapContents(true)) == nil, "watch established")
		verif.Quiesce()
		verif.Assert(len(ch) == 2, "bootstrap delivers the persisted resource and the end marker")
		ev := <-ch
		verif.Assert(ev.Type == state.Created && ev.Resource.Metadata().Version().Value() == 2, "a kind watch that is the first access after restart bootstraps the persisted contents")
	case 4:
		verif.Case("Create")
		cerr := st.Create(ctx, tres.NewA(tres.NS, "a", "again"))
		verif.Assert(state.IsConflictError(cerr), "a persisted id cannot be created again by the first call after restart")
	case 5:
		verif.Case("Update")
		fresh := tres.NewA(tres.NS, "a", "u")
		fresh.Metadata().SetVersion(r0.Metadata().Version())
		verif.Assert(st.Update(ctx, fresh) == nil, "an update with the persisted version is the first call after restart and succeeds")
		r, _ := st.Get(ctx, p)
		verif.Assert(r != nil && r.Metadata().Version().Value() == 3, "and continues the version sequence")
	}
	verif.Cover("first access checked")
}
