package c14

import (
	"github.com/cosi-project/runtime/pkg/resource"
	"github.com/cosi-project/runtime/zzverif/verif"
)

// numeric operand menu for the numeric operators: text -> (value, valid)
var numTexts = []string{"5", "10", "-3", "1ki", "2k", "abc", "", "7x"}
var numVals = []int64{5, 10, -3, 1024, 2000, 0, 0, 0}
var numOK = []bool{true, true, true, true, true, false, false, false}

type entry struct {
	k, v string
}

// buildLabels creates a label set of 0..2 entries with symbolic keys/values.
func buildLabels(n int, numeric bool) (resource.Labels, []entry, []int) {
	var l resource.Labels
	var es []entry
	var nums []int
	for i := 0; i < n; i++ {
		k := verif.Atom("labelKey")
		var v string
		ni := -1
		if numeric {
			ni = verif.Choose("labelNum", len(numTexts))
			v = numTexts[ni]
		} else {
			v = verif.Atom("labelValue")
		}
		if i == 1 {
			verif.Assume(k != es[0].k) // a map has distinct keys
		}
		l.Set(k, v)
		es = append(es, entry{k, v})
		nums = append(nums, ni)
	}
	return l, es, nums
}

// specMatch is the declarative definition of term matching: (defined, result).
func specMatch(es []entry, nums []int, key string, op resource.LabelOp, vals []string, valNums []int) (bool, bool) {
	idx := -1
	for i := range es {
		if es[i].k == key {
			idx = i
		}
	}
	if op == resource.LabelOpExists {
		return true, idx >= 0
	}
	comparison := op == resource.LabelOpLT || op == resource.LabelOpLTE || op == resource.LabelOpLTNumeric || op == resource.LabelOpLTENumeric
	if idx < 0 {
		return !comparison, false
	}
	if len(vals) == 0 {
		return true, false
	}
	v := es[idx].v
	switch op {
	case resource.LabelOpEqual:
		return true, v == vals[0]
	case resource.LabelOpIn:
		for _, x := range vals {
			if x == v {
				return true, true
			}
		}
		return true, false
	case resource.LabelOpLT:
		return true, v < vals[0]
	case resource.LabelOpLTE:
		return true, v <= vals[0]
	case resource.LabelOpLTNumeric, resource.LabelOpLTENumeric:
		a, b := nums[idx], valNums[0]
		if !numOK[a] || !numOK[b] {
			return false, false
		}
		if op == resource.LabelOpLTNumeric {
			return true, numVals[a] < numVals[b]
		}
		return true, numVals[a] <= numVals[b]
	}
	return false, false
}

var ops = []resource.LabelOp{resource.LabelOpExists, resource.LabelOpEqual, resource.LabelOpIn, resource.LabelOpLT, resource.LabelOpLTE, resource.LabelOpLTNumeric, resource.LabelOpLTENumeric}

func mkTerm(numeric bool) (resource.LabelTerm, []int) {
	var t resource.LabelTerm
	t.Key = verif.Atom("termKey")
	t.Invert = verif.Bool("invert")
	nv := verif.Choose("nvalues", 3)
	var valNums []int
	for i := 0; i < nv; i++ {
		if numeric {
			ni := verif.Choose("termNum", len(numTexts))
			t.Value = append(t.Value, numTexts[ni])
			valNums = append(valNums, ni)
		} else {
			t.Value = append(t.Value, verif.Atom("termValue"))
			valNums = append(valNums, -1)
		}
	}
	return t, valNums
}

// H_TermAlgebra: Labels.Matches(term) == declarative definition, for every
// label set of <=2 entries and every term (all operators, invert, 0..2 values).
func H_TermAlgebra() {
	opi := verif.Choose("op", len(ops))
	op := ops[opi]
	numeric := op == resource.LabelOpLTNumeric || op == resource.LabelOpLTENumeric
	n := verif.Choose("nlabels", 3)
	labels, es, nums := buildLabels(n, numeric)
	term, valNums := mkTerm(numeric)
	term.Op = op

	got := labels.Matches(term)

	defined, res := specMatch(es, nums, term.Key, op, term.Value, valNums)
	want := false
	if defined {
		want = res != term.Invert
	}
	verif.Observe("matches", got)
	verif.Assert(got == want, "Labels.Matches agrees with the declarative term semantics")
	if !defined {
		verif.Cover("undefined comparison stays false under invert")
	}
	if len(term.Value) == 0 && op != resource.LabelOpExists && n > 0 {
		verif.Cover("empty value list")
	}
	if got && term.Invert {
		verif.Cover("inverted match")
	}
	if numeric && defined && res {
		verif.Cover("numeric match")
	}
}

// H_QueryAlgebra: a query is the AND of its terms, queries are OR-ed, empty cases are true.  Term
// semantics are H_TermAlgebra's subject; here terms are representative (existence, equality, lexical
// comparison; one value; symbolic key, value and inversion) over at most one symbolic label.
func H_QueryAlgebra() {
	n := verif.Choose("nlabels", 2)
	labels, _, _ := buildLabels(n, false)
	nq := verif.Choose("nqueries", 3)
	var qs resource.LabelQueries
	want := nq == 0
	qops := []resource.LabelOp{resource.LabelOpExists, resource.LabelOpEqual, resource.LabelOpLT}
	for q := 0; q < nq; q++ {
		nt := verif.Choose("nterms", 3)
		var query resource.LabelQuery
		all := true
		for t := 0; t < nt; t++ {
			term := resource.LabelTerm{Key: verif.Atom("termKey"), Invert: verif.Bool("invert"), Value: []string{verif.Atom("termValue")}}
			term.Op = qops[verif.Choose("op", len(qops))]
			query.Terms = append(query.Terms, term)
			if !labels.Matches(term) {
				all = false
			}
		}
		verif.Assert(query.Matches(labels) == all, "a query matches iff all of its terms match (empty query matches)")
		if all {
			want = true
		}
		qs = append(qs, query)
	}
	verif.Assert(qs.Matches(labels) == want, "queries are OR-ed; no queries matches everything")
	if nq == 2 && want {
		verif.Cover("or of two queries true")
	}
	if nq > 0 && !want {
		verif.Cover("no query matches")
	}
}
