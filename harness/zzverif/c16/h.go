// Package c16: fault containment and clean shutdown on the assembled runtime (public API only).
package c16

import (
	"context"
	"errors"
	"time"

	"go.uber.org/zap"

	"github.com/cosi-project/runtime/pkg/controller"
	"github.com/cosi-project/runtime/pkg/controller/runtime"
	"github.com/cosi-project/runtime/pkg/controller/runtime/options"
	"github.com/cosi-project/runtime/pkg/resource"
	"github.com/cosi-project/runtime/pkg/state"
	"github.com/cosi-project/runtime/pkg/state/impl/inmem"
	"github.com/cosi-project/runtime/pkg/state/impl/namespaced"
	"github.com/cosi-project/runtime/zzverif/tres"
	"github.com/cosi-project/runtime/zzverif/verif"
)

const (
	oOK = iota
	oFail
	oPanic
)

var ids = []string{"a", "b"}

// active counts controller code (Run, run hook, Reconcile) currently executing.
var active int

func enter() func() {
	verif.Atomic(func() { active++ })
	return func() { verif.Atomic(func() { active-- }) }
}

// act plays one scripted outcome: ok blocks until the context ends.
func act(ctx context.Context, script []int, k int) error {
	if k < len(script) {
		switch script[k] {
		case oFail:
			return errors.New("scripted failure")
		case oPanic:
			panic("scripted panic")
		}
	}
	<-ctx.Done()
	return nil
}

// faulty: a plain controller whose successive Run invocations follow a script.
type faulty struct {
	script []int
	starts int
}

func (f *faulty) Name() string                 { return "faulty" }
func (f *faulty) Inputs() []controller.Input   { return nil }
func (f *faulty) Outputs() []controller.Output { return nil }
func (f *faulty) Run(ctx context.Context, _ controller.Runtime, _ *zap.Logger) error {
	defer enter()()
	k := f.starts
	f.starts++
	return act(ctx, f.script, k)
}

// mirror: a healthy plain controller keeping B(id).N equal to the version of A(id) for every A.
type mirror struct{ reconciles int }

func (m *mirror) Name() string { return "mirror" }
func (m *mirror) Inputs() []controller.Input {
	return []controller.Input{{Namespace: tres.NS, Type: tres.TypeA, Kind: controller.InputWeak}}
}
func (m *mirror) Outputs() []controller.Output {
	return []controller.Output{{Type: tres.TypeB, Kind: controller.OutputExclusive}}
}
func (m *mirror) Run(ctx context.Context, r controller.Runtime, _ *zap.Logger) error {
	defer enter()()
	for {
		select {
		case <-ctx.Done():
			return nil
		case <-r.EventCh():
		}
		m.reconciles++
		for _, id := range ids {
			a, err := r.Get(ctx, resource.NewMetadata(tres.NS, tres.TypeA, id, resource.VersionUndefined))
			if err != nil {
				continue
			}
			v := int64(a.Metadata().Version().Value())
			if err = r.Modify(ctx, tres.NewB(tres.NS, id, ""), func(res resource.Resource) error {
				res.(*tres.B).TypedSpec().N = v
				return nil
			}); err != nil {
				return err
			}
		}
	}
}

// hooked: a queue controller whose run hook follows a script; its items always succeed.
type hooked struct {
	script     []int
	hookStarts int
	hookAt     []time.Time
	shutdowns  int
	seen       map[string]uint64
}

func (q *hooked) Name() string { return "hooked" }
func (q *hooked) Settings() controller.QSettings {
	return controller.QSettings{
		Inputs: []controller.Input{{Namespace: tres.NS, Type: tres.TypeA, Kind: controller.InputQPrimary}},
		RunHook: func(ctx context.Context, _ *zap.Logger, _ controller.QRuntime) error {
			defer enter()()
			k := q.hookStarts
			q.hookStarts++
			q.hookAt = append(q.hookAt, time.Now())
			return act(ctx, q.script, k)
		},
		ShutdownHook: func() { q.shutdowns++ },
	}
}
func (q *hooked) Reconcile(ctx context.Context, _ *zap.Logger, r controller.QRuntime, p resource.Pointer) error {
	defer enter()()
	if a, err := r.Get(ctx, resource.NewMetadata(tres.NS, tres.TypeA, p.ID(), resource.VersionUndefined)); err == nil {
		q.seen[p.ID()] = a.Metadata().Version().Value()
	} else {
		delete(q.seen, p.ID())
	}
	return nil
}
func (q *hooked) MapInput(context.Context, *zap.Logger, controller.QRuntime, controller.ReducedResourceMetadata) ([]resource.Pointer, error) {
	return nil, nil
}

func script(name string, n int) []int {
	s := make([]int, verif.Choose(name+"Len", n+1))
	for i := range s {
		s[i] = oFail + verif.Choose(name, 2)
	}
	return s
}

func write(ctx context.Context, st state.State) {
	id := ids[verif.Choose("id", 2)]
	p := resource.NewMetadata(tres.NS, tres.TypeA, id, resource.VersionUndefined)
	switch verif.Choose("write", 3) {
	case 0:
		st.Create(ctx, tres.NewA(tres.NS, id, "v")) //nolint:errcheck
	case 1:
		if r, err := st.Get(ctx, p); err == nil {
			r.(*tres.A).TypedSpec().N++
			st.Update(ctx, r) //nolint:errcheck
		}
	case 2:
		st.Destroy(ctx, p) //nolint:errcheck
	}
}

// H_Shutdown: the assembled runtime with a controller and a run hook that fail or panic according to
// arbitrary scripts next to a healthy controller and healthy queue items; faults are contained, the
// healthy parts converge, and cancelling at any point makes Run return with every goroutine gone,
// the shutdown hook run once and no write issued afterwards.
func H_Shutdown() {
	ctx, cancel := context.WithCancel(context.Background())
	defer cancel()
	cnt := &tres.Counting{Inner: namespaced.NewState(inmem.Build)}
	st := state.WrapCore(cnt)
	rt, err := runtime.NewRuntime(st, zap.NewNop(), options.WithMetrics(false))
	verif.Assert(err == nil, "runtime created")
	nf, nwrites := 1, 2
	if verif.Tier() == "thorough" {
		// thorough = (scripts of <=2 faults, <=2 writes, delay bound 0) + (scripts of <=1 fault, <=1 write, delay bound 1)
		if verif.Choose("longerScripts", 2) == 1 {
			nf = 2
			verif.SetPreemptions(0)
		} else {
			nwrites = 1
		}
	}
	f := &faulty{script: script("controllerFault", nf)}
	m := &mirror{}
	q := &hooked{script: script("hookFault", nf), seen: map[string]uint64{}}
	verif.Assert(rt.RegisterController(f) == nil && rt.RegisterController(m) == nil && rt.RegisterQController(q) == nil, "controllers registered")
	active = 0
	returned, writesAtReturn, activeAtReturn := false, 0, 0
	var runErr error
	go func() {
		runErr = rt.Run(ctx)
		verif.Atomic(func() { returned, writesAtReturn, activeAtReturn = true, cnt.Writes, active })
	}()
	own := 0
	n := verif.Choose("writes", nwrites+1)
	for i := 0; i < n; i++ {
		if verif.Choose("settle", 2) == 1 {
			verif.Quiesce()
		}
		w := cnt.Writes
		write(ctx, st)
		own += cnt.Writes - w
	}
	if verif.Choose("letFaultsPlayOut", 2) == 1 {
		time.Sleep(10 * time.Minute) // longer than any scripted sequence of backoffs
		verif.Quiesce()
		verif.Assert(!returned, "failing or panicking controllers and hooks never stop the runtime")
		verif.Assert(f.starts == len(f.script)+1, "a failed or panicked controller is restarted after every fault and only then")
		verif.Assert(q.hookStarts == len(q.script)+1, "a failed or panicked run hook is restarted after every fault and only then")
		for k := 1; k < len(q.hookAt); k++ {
			verif.Assert(q.hookAt[k].Sub(q.hookAt[k-1]) > 0, "the run hook is restarted after a positive backoff")
			if k >= 2 {
				verif.Assert(q.hookAt[k].Sub(q.hookAt[k-1]) >= q.hookAt[k-1].Sub(q.hookAt[k-2]), "run hook backoff grows across consecutive faults")
				verif.Cover("hook backoff grew")
			}
		}
		for _, id := range ids {
			a, aerr := st.Get(ctx, resource.NewMetadata(tres.NS, tres.TypeA, id, resource.VersionUndefined))
			b, berr := st.Get(ctx, resource.NewMetadata(tres.NS, tres.TypeB, id, resource.VersionUndefined))
			if aerr == nil {
				verif.Assert(berr == nil && b.(*tres.B).TypedSpec().N == int64(a.Metadata().Version().Value()) && b.Metadata().Owner() == "mirror",
					"the healthy controller converged as if its neighbours had not failed")
				verif.Assert(q.seen[id] == a.Metadata().Version().Value(), "healthy queue items are reconciled to the current state next to a failing run hook")
				verif.Cover("healthy converged")
			} else {
				_, seen := q.seen[id]
				verif.Assert(!seen, "a destroyed item was last seen as gone")
			}
		}
		if len(f.script) > 0 {
			verif.Cover("controller fault contained")
		}
		if len(q.script) > 0 {
			verif.Cover("hook fault contained")
		}
	}
	cancel()
	verif.Quiesce()
	verif.Assert(returned, "on cancellation Run returns")
	verif.Assert(runErr == nil, "a cancelled Run reports no watch error")
	verif.Assert(activeAtReturn == 0, "when Run returns no controller, run hook or reconcile is still executing")
	verif.Assert(verif.NumThreads() == 1, "after Run returned every goroutine of the runtime, its watches and its hooks is gone")
	verif.Assert(q.shutdowns == 1, "the shutdown hook ran exactly once")
	verif.Assert(cnt.Writes == writesAtReturn, "no write is issued after Run returned")
	w := cnt.Writes
	write(context.Background(), st)
	ownAfter := cnt.Writes - w
	time.Sleep(10 * time.Minute)
	verif.Quiesce()
	verif.Assert(cnt.Writes == w+ownAfter && verif.NumThreads() == 1, "a stopped runtime does not react to later changes")
	verif.Cover("shutdown checked")
	_ = own
}
