package c19

import (
	"context"

	"github.com/cosi-project/runtime/pkg/resource"
	"github.com/cosi-project/runtime/pkg/resource/kvutils"
	"github.com/cosi-project/runtime/pkg/state"
	"github.com/cosi-project/runtime/pkg/state/impl/inmem"
	"github.com/cosi-project/runtime/pkg/state/impl/namespaced"
	"github.com/cosi-project/runtime/zzverif/tres"
	"github.com/cosi-project/runtime/zzverif/verif"
)

const id = "r"

func ptr() resource.Metadata {
	return resource.NewMetadata(tres.NS, tres.TypeA, id, resource.VersionUndefined)
}

// view is what an observer can see of one resource through the public API.
type view struct {
	version         uint64
	owner           string
	phase           resource.Phase
	nLabels, nAnnot int
	l1, lx, a1, ax  string
	hasL1, hasLx    bool
	hasA1, hasAx    bool
	nFin            int
	f1, f2          bool
	s               string
	n               int64
}

type probes struct{ l1, lx, a1, ax, f1, f2 string }

func observe(md *resource.Metadata, sp tres.Spec, p probes) view {
	v := view{version: md.Version().Value(), owner: md.Owner(), phase: md.Phase(), s: sp.S, n: sp.N}
	v.nLabels, v.nAnnot = md.Labels().Len(), md.Annotations().Len()
	v.l1, v.hasL1 = md.Labels().Get(p.l1)
	v.lx, v.hasLx = md.Labels().Get(p.lx)
	v.a1, v.hasA1 = md.Annotations().Get(p.a1)
	v.ax, v.hasAx = md.Annotations().Get(p.ax)
	v.nFin = len(*md.Finalizers())
	v.f1, v.f2 = md.Finalizers().Has(p.f1), md.Finalizers().Has(p.f2)
	return v
}

func same(a, b view) bool {
	return verif.And(a.version == b.version, a.owner == b.owner, a.phase == b.phase, a.nLabels == b.nLabels, a.nAnnot == b.nAnnot,
		a.hasL1 == b.hasL1, a.hasLx == b.hasLx, a.hasA1 == b.hasA1, a.hasAx == b.hasAx,
		a.l1 == b.l1, a.lx == b.lx, a.a1 == b.a1, a.ax == b.ax,
		a.nFin == b.nFin, a.f1 == b.f1, a.f2 == b.f2, a.s == b.s, a.n == b.n)
}

func storeView(ctx context.Context, st state.State, p probes) view {
	r, err := st.Get(ctx, ptr())
	verif.Assert(err == nil, "resource readable")
	return observe(r.Metadata(), tres.SpecOf(r), p)
}

// mutate applies one public mutation to a caller-held metadata (and spec).
func mutate(md *resource.Metadata, sp *tres.Spec, p probes) {
	val := verif.Atom("newValue")
	switch verif.Choose("mutation", 12) {
	case 0:
		md.Labels().Set(p.lx, val)
	case 1:
		md.Labels().Delete(p.l1)
	case 2:
		md.Labels().Set(p.l1, val)
	case 3:
		md.Labels().Do(func(t kvutils.TempKV) { t.Set(p.lx, val); t.Delete(p.l1) })
	case 4:
		md.Annotations().Set(p.ax, val)
	case 5:
		md.Annotations().Delete(p.a1)
	case 6:
		md.Finalizers().Add(p.f2)
	case 7:
		md.Finalizers().Remove(p.f1)
	case 8:
		md.SetPhase(resource.PhaseTearingDown)
	case 9:
		md.SetVersion(md.Version().Next())
	case 10:
		md.SetOwner(val) //nolint:errcheck
	case 11:
		if sp != nil {
			sp.S = val
			sp.N++
		}
	}
}

// H_CallerIsolation: after any hand-over of an object to or from the store,
// mutating the caller's object never changes what the store and other readers observe.
func H_CallerIsolation() {
	ctx := context.Background()
	st := state.WrapCore(namespaced.NewState(inmem.Build))
	p := probes{l1: verif.Atom("label1"), lx: verif.Atom("labelX"), a1: verif.Atom("annot1"), ax: verif.Atom("annotX"), f1: verif.Atom("fin1"), f2: verif.Atom("fin2")}
	verif.Assume(verif.And(p.f1 != "", p.f2 != ""))
	r := tres.NewA(tres.NS, id, "v")
	// metadata history before the hand-over
	lh := verif.Choose("labelHistory", 3) // 0 never labelled, 1 one label, 2 one label set and deleted again
	if lh > 0 {
		r.Metadata().Labels().Set(p.l1, "L")
		r.Metadata().Annotations().Set(p.a1, "A")
	}
	if verif.Choose("finalizer", 2) == 1 {
		r.Metadata().Finalizers().Add(p.f1)
	}
	owner := verif.Atom("owner")
	verif.Assert(st.Create(ctx, r, state.WithCreateOwner(owner)) == nil, "create")
	if lh == 2 {
		_, err := st.UpdateWithConflicts(ctx, ptr(), func(x resource.Resource) error {
			x.Metadata().Labels().Delete(p.l1)
			x.Metadata().Annotations().Delete(p.a1)
			return nil
		}, state.WithUpdateOwner(owner))
		verif.Assert(err == nil, "labels removed again")
		verif.Cover("emptied label map")
	}
	var heldMD *resource.Metadata
	var heldSpec *tres.Spec
	switch verif.Choose("handover", 5) {
	case 0:
		verif.Case("object passed to Create")
		heldMD, heldSpec = r.Metadata(), r.TypedSpec()
	case 1:
		verif.Case("object returned by Get")
		g, err := st.Get(ctx, ptr())
		verif.Assert(err == nil, "get")
		heldMD, heldSpec = g.Metadata(), g.(*tres.A).TypedSpec()
	case 2:
		verif.Case("object returned by List")
		l, err := st.List(ctx, ptr())
		verif.Assert(err == nil && len(l.Items) == 1, "list")
		heldMD, heldSpec = l.Items[0].Metadata(), l.Items[0].(*tres.A).TypedSpec()
	case 3:
		verif.Case("object passed to Update")
		g, err := st.Get(ctx, ptr())
		verif.Assert(err == nil, "get")
		g.(*tres.A).TypedSpec().N = 7
		verif.Assert(st.Update(ctx, g, state.WithUpdateOwner(owner)) == nil, "update")
		heldMD, heldSpec = g.Metadata(), g.(*tres.A).TypedSpec()
	case 4:
		verif.Case("copy of metadata")
		g, err := st.Get(ctx, ptr())
		verif.Assert(err == nil, "get")
		c := g.Metadata().Copy()
		heldMD = &c
		// the original of the copy is a second observer
		before := observe(g.Metadata(), tres.SpecOf(g), p)
		mutate(heldMD, nil, p)
		verif.Assert(same(before, observe(g.Metadata(), tres.SpecOf(g), p)), "metadata copies are independent (copy-on-write)")
	}
	// another reader took its copy before the mutation
	reader, err := st.Get(ctx, ptr())
	verif.Assert(err == nil, "second reader")
	beforeStore := storeView(ctx, st, p)
	beforeReader := observe(reader.Metadata(), tres.SpecOf(reader), p)
	mutate(heldMD, heldSpec, p)
	verif.Assert(same(beforeStore, storeView(ctx, st, p)), "mutating a caller-held object never changes what the store returns")
	verif.Assert(same(beforeReader, observe(reader.Metadata(), tres.SpecOf(reader), p)), "mutating a caller-held object never changes another reader's copy")
	verif.Cover("isolation checked")
}

// H_FinalizerCOW: finalizer sets are copy-on-write whatever spare capacity the shared backing array
// has: after copying metadata that carries 0..4 finalizers (added one by one, so the array has room
// to spare), adding or removing finalizers on one copy never shows through the other.
func H_FinalizerCOW() {
	md := resource.NewMetadata(tres.NS, tres.TypeA, "a", resource.VersionUndefined)
	names := []string{"f1", "f2", "f3", "f4"}
	k := verif.Choose("finalizers", 5)
	for i := 0; i < k; i++ {
		md.Finalizers().Add(names[i])
	}
	if k > 0 && verif.Choose("removedOne", 2) == 1 {
		md.Finalizers().Remove(names[0]) // leaves spare capacity as well
		names, k = names[1:], k-1
	}
	other := md.Copy()
	switch verif.Choose("mutation", 3) {
	case 0:
		md.Finalizers().Add("x")
		other.Finalizers().Add("y")
		verif.Assert(md.Finalizers().Has("x") && !md.Finalizers().Has("y"), "a finalizer added to a copy does not appear in the original")
		verif.Assert(other.Finalizers().Has("y") && !other.Finalizers().Has("x"), "a finalizer added to the original does not appear in the copy")
	case 1:
		if k == 0 {
			return
		}
		md.Finalizers().Remove(names[0])
		verif.Assert(other.Finalizers().Has(names[0]) && len(*other.Finalizers()) == k, "removing a finalizer from the original leaves the copy intact")
	case 2:
		other.Finalizers().Add("y")
		md.Finalizers().Add("x")
		verif.Assert(other.Finalizers().Has("y") && !other.Finalizers().Has("x") && md.Finalizers().Has("x") && !md.Finalizers().Has("y"), "additions in either order stay private")
	}
	for i := 0; i < k; i++ {
		verif.Assert(other.Finalizers().Has(names[i]), "the copy keeps the finalizers it was copied with")
	}
	verif.Cover("finalizer sets independent")
}
