// Package tres provides the small resource types used by all harnesses,
// built on the repository's real typed.Resource.
package tres

import (
	"context"

	"github.com/cosi-project/runtime/pkg/resource"
	"github.com/cosi-project/runtime/pkg/resource/meta"
	"github.com/cosi-project/runtime/pkg/resource/meta/spec"
	"github.com/cosi-project/runtime/pkg/resource/protobuf"
	"github.com/cosi-project/runtime/pkg/resource/typed"
	"github.com/cosi-project/runtime/pkg/state"
	"github.com/cosi-project/runtime/zzverif/verif"
)

const (
	NS    = resource.Namespace("ns")
	TypeA = resource.Type("A.test")
	TypeB = resource.Type("B.test")
)

// Spec is the payload: a string (possibly an atom) and a number.
type Spec struct {
	S string
	N int64
}

func (s Spec) DeepCopy() Spec { return s }

// Equal implements the equality hook used by resource.Equal (no reflection).
func (s *Spec) Equal(other any) bool {
	o, ok := other.(*Spec)
	if !ok {
		return false
	}
	return s.S == o.S && s.N == o.N
}

type extA struct{}

func (extA) ResourceDefinition() spec.ResourceDefinitionSpec {
	return spec.ResourceDefinitionSpec{Type: TypeA, DefaultNamespace: NS}
}

type extB struct{}

func (extB) ResourceDefinition() spec.ResourceDefinitionSpec {
	return spec.ResourceDefinitionSpec{Type: TypeB, DefaultNamespace: NS}
}

type A = typed.Resource[Spec, extA]
type B = typed.Resource[Spec, extB]

func NewA(ns resource.Namespace, id resource.ID, s string) *A {
	return typed.NewResource[Spec, extA](resource.NewMetadata(ns, TypeA, id, resource.VersionUndefined), Spec{S: s})
}

func NewB(ns resource.Namespace, id resource.ID, s string) *B {
	return typed.NewResource[Spec, extB](resource.NewMetadata(ns, TypeB, id, resource.VersionUndefined), Spec{S: s})
}

// SpecOf returns the payload of any tres resource.
func SpecOf(r resource.Resource) Spec {
	switch x := r.(type) {
	case *A:
		return *x.TypedSpec()
	case *B:
		return *x.TypedSpec()
	}
	return Spec{S: "<foreign>"}
}

var _ = meta.NamespaceType

// NewAt creates a resource of an arbitrary (possibly symbolic) type.
func NewAt(ns resource.Namespace, typ resource.Type, id resource.ID, s string) *A {
	return typed.NewResource[Spec, extA](resource.NewMetadata(ns, typ, id, resource.VersionUndefined), Spec{S: s})
}

// Counting wraps a CoreState and counts/logs every call that reaches it.
type Counting struct {
	Inner  state.CoreState
	Calls  int
	Writes int
}

func (c *Counting) Get(ctx context.Context, p resource.Pointer, o ...state.GetOption) (resource.Resource, error) {
	c.Calls++
	return c.Inner.Get(ctx, p, o...)
}

func (c *Counting) List(ctx context.Context, k resource.Kind, o ...state.ListOption) (resource.List, error) {
	c.Calls++
	return c.Inner.List(ctx, k, o...)
}

func (c *Counting) Create(ctx context.Context, r resource.Resource, o ...state.CreateOption) error {
	c.Calls++
	c.Writes++
	return c.Inner.Create(ctx, r, o...)
}

func (c *Counting) Update(ctx context.Context, r resource.Resource, o ...state.UpdateOption) error {
	c.Calls++
	c.Writes++
	return c.Inner.Update(ctx, r, o...)
}

func (c *Counting) Destroy(ctx context.Context, p resource.Pointer, o ...state.DestroyOption) error {
	c.Calls++
	c.Writes++
	return c.Inner.Destroy(ctx, p, o...)
}

func (c *Counting) Watch(ctx context.Context, p resource.Pointer, ch chan<- state.Event, o ...state.WatchOption) error {
	c.Calls++
	return c.Inner.Watch(ctx, p, ch, o...)
}

func (c *Counting) WatchKind(ctx context.Context, k resource.Kind, ch chan<- state.Event, o ...state.WatchKindOption) error {
	c.Calls++
	return c.Inner.WatchKind(ctx, k, ch, o...)
}

func (c *Counting) WatchKindAggregated(ctx context.Context, k resource.Kind, ch chan<- []state.Event, o ...state.WatchKindOption) error {
	c.Calls++
	return c.Inner.WatchKindAggregated(ctx, k, ch, o...)
}

// Write is one committed change of the store.
type Write struct {
	Actor  string            // "caller" or "env"
	Kind   string            // create | update | destroy
	Before resource.Resource // nil if absent
	After  resource.Resource // nil if destroyed
}

// Interpose is a single-threaded CoreState wrapper that models concurrency at
// store-operation granularity: before every call of the party under test it
// lets an environment callback perform interfering operations on the same
// store, and it logs every committed write with its before/after value.
type Interpose struct {
	Inner state.CoreState
	Env   func(op string, ptr resource.Pointer) // may call methods of the Interpose itself
	inEnv bool

	Log           []Write
	CallerReads   []resource.Resource // results of the caller's Get calls (nil = not found)
	CallerUpdates int
	CallerCalls   int
	EnvWrites     int
	WatchAt       []int               // len(Log) at each Watch registration
	WatchInitial  []resource.Resource // value at each Watch registration (nil = absent)
}

func (ip *Interpose) actor() string {
	if ip.inEnv {
		return "env"
	}
	return "caller"
}

func (ip *Interpose) boundary(op string, p resource.Pointer) {
	if ip.inEnv {
		return
	}
	ip.CallerCalls++
	if ip.Env != nil {
		ip.inEnv = true
		ip.Env(op, p)
		ip.inEnv = false
	}
}

func (ip *Interpose) cur(ctx context.Context, p resource.Pointer) resource.Resource {
	r, err := ip.Inner.Get(ctx, p)
	if err != nil {
		return nil
	}
	return r
}

func (ip *Interpose) Get(ctx context.Context, p resource.Pointer, o ...state.GetOption) (resource.Resource, error) {
	ip.boundary("get", p)
	r, err := ip.Inner.Get(ctx, p, o...)
	if !ip.inEnv {
		if err != nil {
			ip.CallerReads = append(ip.CallerReads, nil)
		} else {
			ip.CallerReads = append(ip.CallerReads, r.DeepCopy())
		}
	}
	return r, err
}

func (ip *Interpose) List(ctx context.Context, k resource.Kind, o ...state.ListOption) (resource.List, error) {
	ip.boundary("list", resource.NewMetadata(k.Namespace(), k.Type(), "", resource.VersionUndefined))
	return ip.Inner.List(ctx, k, o...)
}

func (ip *Interpose) Create(ctx context.Context, r resource.Resource, o ...state.CreateOption) (err error) {
	ip.boundary("create", r.Metadata())
	verif.Atomic(func() {
		before := ip.cur(ctx, r.Metadata())
		err = ip.Inner.Create(ctx, r, o...)
		if err == nil {
			ip.Log = append(ip.Log, Write{ip.actor(), "create", before, ip.cur(ctx, r.Metadata())})
			if ip.inEnv {
				ip.EnvWrites++
			}
		}
	})
	return err
}

func (ip *Interpose) Update(ctx context.Context, r resource.Resource, o ...state.UpdateOption) error {
	ip.boundary("update", r.Metadata())
	if !ip.inEnv {
		ip.CallerUpdates++
	}
	var err error
	verif.Atomic(func() {
		before := ip.cur(ctx, r.Metadata())
		err = ip.Inner.Update(ctx, r, o...)
		if err == nil {
			ip.Log = append(ip.Log, Write{ip.actor(), "update", before, ip.cur(ctx, r.Metadata())})
			if ip.inEnv {
				ip.EnvWrites++
			}
		}
	})
	return err
}

func (ip *Interpose) Destroy(ctx context.Context, p resource.Pointer, o ...state.DestroyOption) error {
	ip.boundary("destroy", p)
	var err error
	verif.Atomic(func() {
		before := ip.cur(ctx, p)
		err = ip.Inner.Destroy(ctx, p, o...)
		if err == nil {
			ip.Log = append(ip.Log, Write{ip.actor(), "destroy", before, nil})
			if ip.inEnv {
				ip.EnvWrites++
			}
		}
	})
	return err
}

func (ip *Interpose) Watch(ctx context.Context, p resource.Pointer, ch chan<- state.Event, o ...state.WatchOption) (err error) {
	ip.boundary("watch", p)
	verif.Atomic(func() {
		ip.WatchAt = append(ip.WatchAt, len(ip.Log))
		ip.WatchInitial = append(ip.WatchInitial, ip.cur(ctx, p))
		err = ip.Inner.Watch(ctx, p, ch, o...)
	})
	return err
}

func (ip *Interpose) WatchKind(ctx context.Context, k resource.Kind, ch chan<- state.Event, o ...state.WatchKindOption) error {
	return ip.Inner.WatchKind(ctx, k, ch, o...)
}

func (ip *Interpose) WatchKindAggregated(ctx context.Context, k resource.Kind, ch chan<- []state.Event, o ...state.WatchKindOption) error {
	return ip.Inner.WatchKindAggregated(ctx, k, ch, o...)
}

// CallerWrites returns the committed writes of the party under test.
func (ip *Interpose) CallerWrites() []Write {
	var ws []Write
	for _, w := range ip.Log {
		if w.Actor == "caller" {
			ws = append(ws, w)
		}
	}
	return ws
}

// MarshalProto / UnmarshalProto give the spec a wire form without reflection:
// one byte for N followed by the bytes of S (S must be a concrete string when marshalled).
func (s *Spec) MarshalProto() ([]byte, error) {
	return append([]byte{byte(s.N)}, []byte(s.S)...), nil
}

func (s *Spec) UnmarshalProto(b []byte) error {
	if len(b) == 0 {
		// like a protobuf message: no bytes is the zero value (tombstones carry no spec)
		*s = Spec{}
		return nil
	}
	s.N = int64(b[0])
	s.S = string(b[1:])
	return nil
}

// RegisterProto registers the resource types with the protobuf registry.
func RegisterProto() {
	protobuf.RegisterResource(TypeA, &A{}) //nolint:errcheck
	protobuf.RegisterResource(TypeB, &B{}) //nolint:errcheck
}

// RunAsEnv runs f with every write attributed to the environment.
func (ip *Interpose) RunAsEnv(f func()) {
	saved := ip.inEnv
	ip.inEnv = true
	f()
	ip.inEnv = saved
}
