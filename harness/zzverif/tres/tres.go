// Package tres provides the small resource types used by all harnesses,
// built on the repository's real typed.Resource.
package tres

import (
	"context"

	"github.com/cosi-project/runtime/pkg/resource"
	"github.com/cosi-project/runtime/pkg/state"
	"github.com/cosi-project/runtime/pkg/resource/meta"
	"github.com/cosi-project/runtime/pkg/resource/meta/spec"
	"github.com/cosi-project/runtime/pkg/resource/typed"
)

const (
	NS    = resource.Namespace("ns")
	TypeA = resource.Type("A.test")
	TypeB = resource.Type("B.test")
)

// Spec is the payload: a string (possibly an atom) and a number.
type Spec struct {
	S string
	N int64
}

func (s Spec) DeepCopy() Spec { return s }

// Equal implements the equality hook used by resource.Equal (no reflection).
func (s *Spec) Equal(other any) bool {
	o, ok := other.(*Spec)
	if !ok {
		return false
	}
	return s.S == o.S && s.N == o.N
}

type extA struct{}

func (extA) ResourceDefinition() spec.ResourceDefinitionSpec {
	return spec.ResourceDefinitionSpec{Type: TypeA, DefaultNamespace: NS}
}

type extB struct{}

func (extB) ResourceDefinition() spec.ResourceDefinitionSpec {
	return spec.ResourceDefinitionSpec{Type: TypeB, DefaultNamespace: NS}
}

type A = typed.Resource[Spec, extA]
type B = typed.Resource[Spec, extB]

func NewA(ns resource.Namespace, id resource.ID, s string) *A {
	return typed.NewResource[Spec, extA](resource.NewMetadata(ns, TypeA, id, resource.VersionUndefined), Spec{S: s})
}

func NewB(ns resource.Namespace, id resource.ID, s string) *B {
	return typed.NewResource[Spec, extB](resource.NewMetadata(ns, TypeB, id, resource.VersionUndefined), Spec{S: s})
}

// SpecOf returns the payload of any tres resource.
func SpecOf(r resource.Resource) Spec {
	switch x := r.(type) {
	case *A:
		return *x.TypedSpec()
	case *B:
		return *x.TypedSpec()
	}
	return Spec{S: "<foreign>"}
}

var _ = meta.NamespaceType

// NewAt creates a resource of an arbitrary (possibly symbolic) type.
func NewAt(ns resource.Namespace, typ resource.Type, id resource.ID, s string) *A {
	return typed.NewResource[Spec, extA](resource.NewMetadata(ns, typ, id, resource.VersionUndefined), Spec{S: s})
}

// Counting wraps a CoreState and counts/logs every call that reaches it.
type Counting struct {
	Inner state.CoreState
	Calls int
	Writes int
}

func (c *Counting) Get(ctx context.Context, p resource.Pointer, o ...state.GetOption) (resource.Resource, error) {
	c.Calls++
	return c.Inner.Get(ctx, p, o...)
}

func (c *Counting) List(ctx context.Context, k resource.Kind, o ...state.ListOption) (resource.List, error) {
	c.Calls++
	return c.Inner.List(ctx, k, o...)
}

func (c *Counting) Create(ctx context.Context, r resource.Resource, o ...state.CreateOption) error {
	c.Calls++
	c.Writes++
	return c.Inner.Create(ctx, r, o...)
}

func (c *Counting) Update(ctx context.Context, r resource.Resource, o ...state.UpdateOption) error {
	c.Calls++
	c.Writes++
	return c.Inner.Update(ctx, r, o...)
}

func (c *Counting) Destroy(ctx context.Context, p resource.Pointer, o ...state.DestroyOption) error {
	c.Calls++
	c.Writes++
	return c.Inner.Destroy(ctx, p, o...)
}

func (c *Counting) Watch(ctx context.Context, p resource.Pointer, ch chan<- state.Event, o ...state.WatchOption) error {
	c.Calls++
	return c.Inner.Watch(ctx, p, ch, o...)
}

func (c *Counting) WatchKind(ctx context.Context, k resource.Kind, ch chan<- state.Event, o ...state.WatchKindOption) error {
	c.Calls++
	return c.Inner.WatchKind(ctx, k, ch, o...)
}

func (c *Counting) WatchKindAggregated(ctx context.Context, k resource.Kind, ch chan<- []state.Event, o ...state.WatchKindOption) error {
	c.Calls++
	return c.Inner.WatchKindAggregated(ctx, k, ch, o...)
}
