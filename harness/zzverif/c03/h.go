package c03

import (
	"context"

	"github.com/cosi-project/runtime/pkg/resource"
	"github.com/cosi-project/runtime/pkg/state"
	"github.com/cosi-project/runtime/pkg/state/impl/inmem"
	"github.com/cosi-project/runtime/pkg/state/impl/namespaced"
	"github.com/cosi-project/runtime/zzverif/tres"
	"github.com/cosi-project/runtime/zzverif/verif"
)

const id = "r"

// symbolic names shared by the parties of one run
type names struct {
	owner       string // owner of the resource (used by the actor, who is the legitimate owner)
	helperOwner string // owner named by the party under test (may or may not be the real owner)
	fin0        string // finalizer possibly present initially
	finA, finB  string // finalizers the actor adds/removes (may coincide with fin0 or each other)
}

func symNames() names {
	n := names{owner: verif.Atom("owner"), helperOwner: verif.Atom("helperOwner"), fin0: verif.Atom("fin0"), finA: verif.Atom("finA"), finB: verif.Atom("finB")}
	verif.Assume(verif.And(n.fin0 != "", n.finA != "", n.finB != ""))
	return n
}

func ptr() resource.Metadata {
	return resource.NewMetadata(tres.NS, tres.TypeA, id, resource.VersionUndefined)
}

// actorOp: one operation of another party on the same resource.
func actorOp(ctx context.Context, st state.State, nm names) {
	owner := nm.owner
	switch verif.Choose("actorOp", 8) {
	case 0:
		st.AddFinalizer(ctx, ptr(), nm.finA) //nolint:errcheck
	case 1:
		st.RemoveFinalizer(ctx, ptr(), nm.finA) //nolint:errcheck
	case 2:
		st.Teardown(ctx, ptr(), state.WithTeardownOwner(owner)) //nolint:errcheck
	case 3:
		st.Destroy(ctx, ptr(), state.WithDestroyOwner(owner)) //nolint:errcheck
	case 4:
		st.Create(ctx, tres.NewA(tres.NS, id, "again"), state.WithCreateOwner(owner)) //nolint:errcheck
	case 5:
		if r, err := st.Get(ctx, ptr()); err == nil {
			r.(*tres.A).TypedSpec().N++
			st.Update(ctx, r, state.WithUpdateOwner(owner), state.WithExpectedPhaseAny()) //nolint:errcheck
		}
	case 6:
		st.AddFinalizer(ctx, ptr(), nm.finB) //nolint:errcheck
	case 7:
		// replace: destroy and re-create back to back (a new incarnation of the resource)
		if st.Destroy(ctx, ptr(), state.WithDestroyOwner(owner)) == nil {
			st.Create(ctx, tres.NewA(tres.NS, id, "again"), state.WithCreateOwner(owner)) //nolint:errcheck
		}
	}
}

func setup(ctx context.Context) (*tres.Interpose, state.State, names) {
	nm := symNames()
	owner := nm.owner
	core := &tres.Interpose{Inner: namespaced.NewState(inmem.Build)}
	st := state.WrapCore(core)
	if verif.Choose("present", 4) > 0 { // mostly present
		verif.Assert(st.Create(ctx, tres.NewA(tres.NS, id, "v"), state.WithCreateOwner(owner)) == nil, "pre-state create")
		if verif.Choose("finalizer", 2) == 1 {
			verif.Assert(st.AddFinalizer(ctx, ptr(), nm.fin0) == nil, "pre-state finalizer")
		}
		if verif.Choose("tearingDown", 2) == 1 {
			_, err := st.Teardown(ctx, ptr(), state.WithTeardownOwner(owner))
			verif.Assert(err == nil, "pre-state teardown")
		}
	}
	core.Log, core.CallerReads, core.WatchAt, core.WatchInitial = nil, nil, nil, nil
	return core, st, nm
}

func noDestroyWithFinalizers(core *tres.Interpose) {
	for _, w := range core.Log {
		if w.Kind == "destroy" {
			verif.Assert(w.Before != nil && w.Before.Metadata().Finalizers().Empty(), "a resource is never removed while it holds a finalizer")
		}
	}
}

// H_TeardownReady (single thread, interference at store-call boundaries):
// Teardown reports ready only if the finalizer set was empty when the teardown took effect.
func H_TeardownReady() {
	ctx := context.Background()
	core, st, nm := setup(ctx)
	budget := 2
	if verif.Tier() == "thorough" {
		budget = 3
	}
	core.Env = func(op string, p resource.Pointer) {
		if budget > 0 && verif.Choose("interfere here", 2) == 1 {
			budget--
			actorOp(ctx, st, nm)
		}
	}
	ready, err := st.Teardown(ctx, ptr(), state.WithTeardownOwner(nm.helperOwner))
	core.Env = nil
	noDestroyWithFinalizers(core)
	ws := core.CallerWrites()
	if err != nil {
		verif.Assert(len(ws) == 0, "failed teardown has no effect")
		verif.Cover("teardown failed")
		return
	}
	verif.Assert(len(ws) <= 1, "teardown writes at most once")
	var effective resource.Resource
	if len(ws) == 1 {
		effective = ws[0].After
		verif.Cover("teardown marked")
	} else {
		effective = core.CallerReads[len(core.CallerReads)-1]
		verif.Cover("already tearing down")
	}
	verif.Assert(effective != nil && effective.Metadata().Phase() == resource.PhaseTearingDown, "successful teardown leaves/finds the resource tearing down")
	if ready {
		verif.Cover("ready")
		verif.Assert(effective.Metadata().Finalizers().Empty(), "ready-to-destroy only if the finalizer set was empty when the teardown took effect")
	} else {
		verif.Cover("not ready")
		verif.Assert(!effective.Metadata().Finalizers().Empty(), "not ready only if a finalizer was pending when the teardown took effect")
	}
}

// actorOps: the number of concurrent actor operations (both tiers; the thorough tier deepens the delay
// bound: measured, 3 operations under delay bound 1 alone are ~900 000 paths per harness).
func actorOps() int {
	return 2
}

// H_TeardownAndDestroy (threads): TeardownAndDestroy against a concurrent actor.
func H_TeardownAndDestroy() {
	ctx := context.Background()
	core, st, nm := setup(ctx)
	nops := actorOps()
	done := false
	var terr error
	go func() {
		terr = st.TeardownAndDestroy(ctx, ptr(), state.WithTeardownAndDestroyOwner(nm.helperOwner))
		done = true
	}()
	n := verif.Choose("actorOps", nops+1)
	go func() {
		for i := 0; i < n; i++ {
			actorOp(ctx, st, nm)
		}
	}()
	verif.Quiesce()
	noDestroyWithFinalizers(core)
	cur, gerr := st.Get(ctx, ptr())
	if done {
		if terr == nil {
			verif.Cover("destroyed")
			destroyed := false
			for _, w := range core.Log {
				if w.Kind == "destroy" {
					destroyed = true
				}
			}
			verif.Assert(destroyed, "TeardownAndDestroy returns success only once the resource is gone")
		} else {
			verif.Cover("helper failed")
		}
	} else {
		verif.Cover("helper still waiting")
		verif.Assert(gerr == nil && !cur.Metadata().Finalizers().Empty(), "TeardownAndDestroy completes when finalizers end up empty (a blocked helper means a finalizer is still pending)")
	}
}

// H_WatchFor (threads): WatchFor returns the first state satisfying the condition, including the state at call time.
func H_WatchFor() {
	ctx := context.Background()
	core, st, nm := setup(ctx)
	nops := actorOps()
	cond := verif.Choose("condition", 2)
	matches := func(r resource.Resource) bool {
		if r == nil {
			return false
		}
		if cond == 0 {
			return r.Metadata().Finalizers().Empty()
		}
		return r.Metadata().Phase() == resource.PhaseTearingDown
	}
	done := false
	var got resource.Resource
	var werr error
	go func() {
		if cond == 0 {
			got, werr = st.WatchFor(ctx, ptr(), state.WithFinalizerEmpty())
		} else {
			got, werr = st.WatchFor(ctx, ptr(), state.WithPhases(resource.PhaseTearingDown))
		}
		done = true
	}()
	n := verif.Choose("actorOps", nops+1)
	go func() {
		for i := 0; i < n; i++ {
			actorOp(ctx, st, nm)
		}
	}()
	verif.Quiesce()
	verif.Assert(len(core.WatchAt) == 1, "WatchFor registers exactly one watch")
	// the sequence of states from the registration on
	seq := []resource.Resource{core.WatchInitial[0]}
	for _, w := range core.Log[core.WatchAt[0]:] {
		if w.Kind == "destroy" {
			seq = append(seq, nil)
		} else {
			seq = append(seq, w.After)
		}
	}
	var first resource.Resource
	for _, r := range seq {
		if matches(r) {
			first = r
			break
		}
	}
	if first == nil {
		verif.Cover("condition never satisfied")
		verif.Assert(!done, "WatchFor keeps waiting while no state satisfies the condition")
		return
	}
	verif.Cover("condition satisfied")
	verif.Assert(done && werr == nil, "WatchFor returns once a state satisfies the condition (no missed state)")
	verif.Assert(got.Metadata().Version().Equal(first.Metadata().Version()) && got.Metadata().Phase() == first.Metadata().Phase(), "WatchFor returns the FIRST state satisfying its condition, including the state at call time")
}

// H_ContextWithTeardown (threads): the context is cancelled iff the resource is, or becomes, torn down, destroyed or absent.
func H_ContextWithTeardown() {
	ctx := context.Background()
	core, st, nm := setup(ctx)
	nops := actorOps()
	tctx, err := st.ContextWithTeardown(ctx, ptr())
	verif.Assert(err == nil, "ContextWithTeardown succeeds")
	n := verif.Choose("actorOps", nops+1)
	go func() {
		for i := 0; i < n; i++ {
			actorOp(ctx, st, nm)
		}
	}()
	verif.Quiesce()
	gone := func(r resource.Resource) bool { return r == nil || r.Metadata().Phase() == resource.PhaseTearingDown }
	should := gone(core.WatchInitial[0])
	for _, w := range core.Log[core.WatchAt[0]:] {
		if w.Kind == "destroy" || gone(w.After) {
			should = true
		}
	}
	if should {
		verif.Cover("cancelled")
	} else {
		verif.Cover("alive")
	}
	verif.Assert((tctx.Err() != nil) == should, "teardown-bound context is cancelled iff the resource is, or becomes, torn down, destroyed or absent")
}
