package c03

import (
	"context"
	"errors"

	"github.com/cosi-project/runtime/pkg/resource"
	"github.com/cosi-project/runtime/pkg/state"
	"github.com/cosi-project/runtime/pkg/state/impl/inmem"
	"github.com/cosi-project/runtime/pkg/state/impl/namespaced"
	"github.com/cosi-project/runtime/zzverif/tres"
	"github.com/cosi-project/runtime/zzverif/verif"
)

// brittle is a CoreState whose single-resource watches deliver the current state and then fail:
// after the initial event (and optionally one more event) the subscriber receives Errored, as it
// would after a buffer overrun or a lost connection.
type brittle struct {
	state.CoreState
	passBeforeFailing int
	failed            bool
}

func (b *brittle) Watch(ctx context.Context, p resource.Pointer, ch chan<- state.Event, o ...state.WatchOption) error {
	inner := make(chan state.Event)
	if err := b.CoreState.Watch(ctx, p, inner, o...); err != nil {
		return err
	}
	go func() {
		for k := 0; ; k++ {
			var ev state.Event
			select {
			case ev = <-inner:
			case <-ctx.Done():
				return
			}
			if k > b.passBeforeFailing {
				verif.Atomic(func() { b.failed = true })
				ev = state.Event{Type: state.Errored, Error: errors.New("watch failed")}
			}
			select {
			case ch <- ev:
			case <-ctx.Done():
				return
			}
			if ev.Type == state.Errored {
				return
			}
		}
	}()
	return nil
}

// H_WatchFailure: the blocking helpers over a state whose watch fails: a teardown-bound context is
// cancelled when its watch fails, and TeardownAndDestroy / WatchFor report the failure instead of
// returning success for something that did not happen.
func H_WatchFailure() {
	ctx, cancel := context.WithCancel(context.Background())
	defer cancel()
	b := &brittle{CoreState: namespaced.NewState(inmem.Build), passBeforeFailing: verif.Choose("eventsBeforeFailure", 2)}
	st := state.WrapCore(b)
	verif.Assert(st.Create(ctx, tres.NewA(tres.NS, id, "v")) == nil, "pre-state")
	verif.Assert(st.AddFinalizer(ctx, ptr(), "held") == nil, "pre-state finalizer")
	touch := func() {
		// an unrelated update: the watch has something to deliver (and then fails)
		if r, err := st.Get(ctx, ptr()); err == nil {
			r.(*tres.A).TypedSpec().N++
			st.Update(ctx, r, state.WithExpectedPhaseAny()) //nolint:errcheck
		}
	}
	switch verif.Choose("helper", 3) {
	case 0:
		verif.Case("ContextWithTeardown")
		tctx, err := st.ContextWithTeardown(ctx, ptr())
		verif.Assert(err == nil, "ContextWithTeardown succeeds")
		verif.Quiesce()
		touch()
		verif.Quiesce()
		touch()
		verif.Quiesce()
		verif.Assert(b.failed, "the watch failed")
		verif.Assert(tctx.Err() != nil, "a teardown-bound context is cancelled when its watch fails")
		verif.Cover("context cancelled by watch failure")
	case 1:
		verif.Case("TeardownAndDestroy")
		done := false
		var terr error
		go func() {
			terr = st.TeardownAndDestroy(ctx, ptr())
			done = true
		}()
		verif.Quiesce()
		touch()
		verif.Quiesce()
		touch()
		verif.Quiesce()
		verif.Assert(b.failed, "the watch failed")
		_, gerr := st.Get(ctx, ptr())
		verif.Assert(done, "TeardownAndDestroy does not hang when its watch fails")
		verif.Assert(gerr == nil && terr != nil, "TeardownAndDestroy whose watch failed reports an error: the resource (still held by a finalizer) is not gone")
		verif.Cover("helper reports watch failure")
	case 2:
		verif.Case("WatchFor")
		done := false
		var werr error
		go func() {
			_, werr = st.WatchFor(ctx, ptr(), state.WithFinalizerEmpty())
			done = true
		}()
		verif.Quiesce()
		touch()
		verif.Quiesce()
		touch()
		verif.Quiesce()
		verif.Assert(b.failed, "the watch failed")
		verif.Cover("WatchFor with a failed watch")
		verif.Assert(done && werr != nil, "WatchFor whose watch failed returns an error instead of blocking for ever")
	}
}
