package c05

import (
	"context"

	"github.com/siderolabs/gen/optional"
	"go.uber.org/zap"

	"github.com/cosi-project/runtime/pkg/controller"
	"github.com/cosi-project/runtime/pkg/controller/runtime"
	"github.com/cosi-project/runtime/pkg/controller/runtime/options"
	"github.com/cosi-project/runtime/pkg/resource"
	"github.com/cosi-project/runtime/pkg/state"
	"github.com/cosi-project/runtime/pkg/state/impl/inmem"
	"github.com/cosi-project/runtime/pkg/state/impl/namespaced"
	"github.com/cosi-project/runtime/zzverif/tres"
	"github.com/cosi-project/runtime/zzverif/verif"
)

type obs struct {
	found   bool
	version uint64
	phase   resource.Phase
}

func observe(ctx context.Context, r controller.Reader, id string) obs {
	res, err := r.Get(ctx, resource.NewMetadata(tres.NS, tres.TypeA, id, resource.VersionUndefined))
	if err != nil {
		return obs{}
	}
	return obs{true, res.Metadata().Version().Value(), res.Metadata().Phase()}
}

var ids = []string{"a", "b"}

// plain: a controller with one input (by kind or by ID, weak/strong/destroy-ready) that records what it last read.
type plain struct {
	name   string
	inputs []controller.Input
	last   map[string]obs
	runs   int
}

func (p *plain) Name() string                 { return p.name }
func (p *plain) Inputs() []controller.Input   { return p.inputs }
func (p *plain) Outputs() []controller.Output { return nil }
func (p *plain) Run(ctx context.Context, r controller.Runtime, _ *zap.Logger) error {
	for {
		select {
		case <-ctx.Done():
			return nil
		case <-r.EventCh():
		}
		p.runs++
		for _, id := range ids {
			p.last[id] = observe(ctx, r, id)
		}
	}
}

// qprobe: a queue controller with A as primary input.
type qprobe struct {
	last map[string]obs
	n    int
}

func (q *qprobe) Name() string { return "queue" }
func (q *qprobe) Settings() controller.QSettings {
	return controller.QSettings{Inputs: []controller.Input{{Namespace: tres.NS, Type: tres.TypeA, Kind: controller.InputQPrimary}}}
}
func (q *qprobe) Reconcile(ctx context.Context, _ *zap.Logger, r controller.QRuntime, p resource.Pointer) error {
	q.n++
	q.last[p.ID()] = observe(ctx, r, p.ID())
	return nil
}
func (q *qprobe) MapInput(context.Context, *zap.Logger, controller.QRuntime, controller.ReducedResourceMetadata) ([]resource.Pointer, error) {
	return nil, nil
}

func current(ctx context.Context, st state.State, id string) obs {
	r, err := st.Get(ctx, resource.NewMetadata(tres.NS, tres.TypeA, id, resource.VersionUndefined))
	if err != nil {
		return obs{}
	}
	return obs{true, r.Metadata().Version().Value(), r.Metadata().Phase()}
}

func write(ctx context.Context, st state.State) {
	id := ids[verif.Choose("id", 2)]
	p := resource.NewMetadata(tres.NS, tres.TypeA, id, resource.VersionUndefined)
	switch verif.Choose("write", 4) {
	case 0:
		st.Create(ctx, tres.NewA(tres.NS, id, "v")) //nolint:errcheck
	case 1:
		if r, err := st.Get(ctx, p); err == nil {
			r.(*tres.A).TypedSpec().N++
			st.Update(ctx, r, state.WithExpectedPhaseAny()) //nolint:errcheck
		}
	case 2:
		st.Teardown(ctx, p) //nolint:errcheck
	case 3:
		st.Destroy(ctx, p) //nolint:errcheck
	}
}

// H_Assembled: the real Runtime with a plain controller (input by kind) and a queue controller on the
// in-memory state; after any history of <=2 (quick) / <=3 (thorough) writes, issued before or after
// start and with or without settling in between, the last state each controller read is the current state.
func H_Assembled() {
	nw := 2
	if verif.Tier() == "thorough" {
		nw = 3
	}
	ctx, cancel := context.WithCancel(context.Background())
	defer cancel()
	st := state.WrapCore(namespaced.NewState(inmem.Build))
	rt, err := runtime.NewRuntime(st, zap.NewNop(), options.WithMetrics(false))
	verif.Assert(err == nil, "runtime created")
	byID := verif.Choose("plainInputByID", 2) == 1
	in := controller.Input{Namespace: tres.NS, Type: tres.TypeA, Kind: controller.InputWeak}
	if byID {
		in.ID = optional.Some("a")
	}
	pc := &plain{name: "plain", inputs: []controller.Input{in}, last: map[string]obs{}}
	qc := &qprobe{last: map[string]obs{}}
	verif.Assert(rt.RegisterController(pc) == nil, "plain controller registered")
	verif.Assert(rt.RegisterQController(qc) == nil, "queue controller registered")
	// writes before start
	nBefore := verif.Choose("writesBeforeStart", 2)
	for i := 0; i < nBefore; i++ {
		write(ctx, st)
	}
	go rt.Run(ctx) //nolint:errcheck
	n := verif.Choose("writes", nw+1)
	for i := 0; i < n; i++ {
		if verif.Choose("settle", 2) == 1 {
			verif.Quiesce()
		}
		write(ctx, st)
	}
	verif.Quiesce() // the system goes quiet
	for _, id := range ids {
		cur := current(ctx, st, id)
		if !byID || id == "a" {
			verif.Assert(pc.last[id] == cur, "plain controller: the last state it read for its input is the current state (no lost wake-up)")
		}
		// a queue controller is reconciled for every change and for every pre-existing primary at start-up
		if cur.found {
			verif.Assert(qc.last[id] == cur, "queue controller: the last state it read for the item is the current state")
		} else if lo, seen := qc.last[id]; seen {
			verif.Assert(!lo.found, "queue controller: a destroyed item was last seen as gone")
		}
	}
	if nBefore > 0 {
		verif.Cover("pre-existing input")
	}
	if n > 0 {
		verif.Cover("write after start")
	}
}
