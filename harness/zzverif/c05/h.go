package c05

import (
	"context"

	"github.com/siderolabs/gen/optional"
	"go.uber.org/zap"

	"github.com/cosi-project/runtime/pkg/controller"
	"github.com/cosi-project/runtime/pkg/controller/runtime"
	"github.com/cosi-project/runtime/pkg/controller/runtime/options"
	"github.com/cosi-project/runtime/pkg/resource"
	"github.com/cosi-project/runtime/pkg/state"
	"github.com/cosi-project/runtime/pkg/state/impl/inmem"
	"github.com/cosi-project/runtime/pkg/state/impl/namespaced"
	"github.com/cosi-project/runtime/zzverif/tres"
	"github.com/cosi-project/runtime/zzverif/verif"
)

type obs struct {
	found   bool
	version uint64
	phase   resource.Phase
}

func observe(ctx context.Context, r controller.Reader, id string) obs {
	res, err := r.Get(ctx, resource.NewMetadata(tres.NS, tres.TypeA, id, resource.VersionUndefined))
	if err != nil {
		return obs{}
	}
	return obs{true, res.Metadata().Version().Value(), res.Metadata().Phase()}
}

var ids = []string{"a", "b"}

// plain: a controller with one input (by kind or by ID, weak/strong/destroy-ready) that records what it last read.
type plain struct {
	name   string
	inputs []controller.Input
	last   map[string]obs
	runs   int
	later  []controller.Input // inputs added through UpdateInputs on the first run
}

func (p *plain) Name() string                 { return p.name }
func (p *plain) Inputs() []controller.Input   { return p.inputs }
func (p *plain) Outputs() []controller.Output { return nil }
func (p *plain) Run(ctx context.Context, r controller.Runtime, _ *zap.Logger) error {
	for {
		select {
		case <-ctx.Done():
			return nil
		case <-r.EventCh():
		}
		p.runs++
		if p.runs == 1 && p.later != nil {
			verif.Assert(r.UpdateInputs(p.later) == nil, "inputs added at run time are accepted")
		}
		for _, id := range ids {
			p.last[id] = observe(ctx, r, id)
		}
	}
}

// qprobe: a queue controller with A as primary input.
type qprobe struct {
	last       map[string]obs
	lastMapped map[string]uint64 // version of B(id) seen by MapInput
	lastB      map[string]uint64 // version of B(id) seen by Reconcile when B is a second primary input
	twoPrimary bool
	n          int
}

func (q *qprobe) Name() string { return "queue" }
func (q *qprobe) Settings() controller.QSettings {
	if q.twoPrimary {
		return controller.QSettings{Inputs: []controller.Input{
			{Namespace: tres.NS, Type: tres.TypeA, Kind: controller.InputQPrimary},
			{Namespace: tres.NS, Type: tres.TypeB, Kind: controller.InputQPrimary},
		}}
	}
	return controller.QSettings{Inputs: []controller.Input{
		{Namespace: tres.NS, Type: tres.TypeA, Kind: controller.InputQPrimary},
		{Namespace: tres.NS, Type: tres.TypeB, Kind: controller.InputQMapped},
	}}
}
func (q *qprobe) Reconcile(ctx context.Context, _ *zap.Logger, r controller.QRuntime, p resource.Pointer) error {
	q.n++
	verif.Assert(p.Type() == tres.TypeA || q.twoPrimary, "a queue controller is reconciled for items of its primary inputs only")
	if p.Type() == tres.TypeB {
		if b, err := r.Get(ctx, resource.NewMetadata(tres.NS, tres.TypeB, p.ID(), resource.VersionUndefined)); err == nil {
			q.lastB[p.ID()] = b.Metadata().Version().Value()
		} else {
			delete(q.lastB, p.ID())
		}
		return nil
	}
	q.last[p.ID()] = observe(ctx, r, p.ID())
	return nil
}
func (q *qprobe) MapInput(ctx context.Context, _ *zap.Logger, r controller.QRuntime, p controller.ReducedResourceMetadata) ([]resource.Pointer, error) {
	if b, err := r.Get(ctx, resource.NewMetadata(tres.NS, tres.TypeB, p.ID(), resource.VersionUndefined)); err == nil {
		q.lastMapped[p.ID()] = b.Metadata().Version().Value()
	} else {
		q.lastMapped[p.ID()] = 0
	}
	// a change of B(id) concerns the primary item A(id)
	return []resource.Pointer{resource.NewMetadata(tres.NS, tres.TypeA, p.ID(), resource.VersionUndefined)}, nil
}

func current(ctx context.Context, st state.State, id string) obs {
	r, err := st.Get(ctx, resource.NewMetadata(tres.NS, tres.TypeA, id, resource.VersionUndefined))
	if err != nil {
		return obs{}
	}
	return obs{true, r.Metadata().Version().Value(), r.Metadata().Phase()}
}

// write performs one external write: on the primary/plain input kind A, or (if allowed) on the mapped kind B.
func write(ctx context.Context, st state.State, mappedAllowed bool) {
	id := ids[verif.Choose("id", 2)]
	p := resource.NewMetadata(tres.NS, tres.TypeA, id, resource.VersionUndefined)
	n := 4
	if mappedAllowed {
		n = 6
	}
	switch verif.Choose("write", n) {
	case 0:
		st.Create(ctx, tres.NewA(tres.NS, id, "v")) //nolint:errcheck
	case 1:
		if r, err := st.Get(ctx, p); err == nil {
			r.(*tres.A).TypedSpec().N++
			st.Update(ctx, r, state.WithExpectedPhaseAny()) //nolint:errcheck
		}
	case 2:
		st.Teardown(ctx, p) //nolint:errcheck
	case 3:
		st.Destroy(ctx, p) //nolint:errcheck
	case 4:
		st.Create(ctx, tres.NewB(tres.NS, id, "m")) //nolint:errcheck
	case 5:
		if r, err := st.Get(ctx, resource.NewMetadata(tres.NS, tres.TypeB, id, resource.VersionUndefined)); err == nil {
			r.(*tres.B).TypedSpec().N++
			st.Update(ctx, r) //nolint:errcheck
		}
	}
}

type variant struct {
	cached, byID, destroyReady, mapped, dynamic, twoPrimary bool
}

func assembled(v variant, nBeforeMax, nw int) {
	ctx, cancel := context.WithCancel(context.Background())
	defer cancel()
	st := state.WrapCore(namespaced.NewState(inmem.Build))
	ropts := []options.Option{options.WithMetrics(false)}
	if v.cached {
		ropts = append(ropts, options.WithCachedResource(tres.NS, tres.TypeA))
	}
	rt, err := runtime.NewRuntime(st, zap.NewNop(), ropts...)
	verif.Assert(err == nil, "runtime created")
	in := controller.Input{Namespace: tres.NS, Type: tres.TypeA, Kind: controller.InputWeak}
	if v.destroyReady {
		in.Kind = controller.InputDestroyReady
	}
	if v.byID {
		in.ID = optional.Some("a")
	}
	pc := &plain{name: "plain", inputs: []controller.Input{in}, last: map[string]obs{}}
	if v.dynamic {
		// the input is declared only later, by the running controller; nobody else watches the kind
		pc.inputs, pc.later = nil, []controller.Input{in}
	}
	qc := &qprobe{last: map[string]obs{}, lastMapped: map[string]uint64{}, lastB: map[string]uint64{}, twoPrimary: v.twoPrimary}
	verif.Assert(rt.RegisterController(pc) == nil, "plain controller registered")
	if !v.dynamic {
		verif.Assert(rt.RegisterQController(qc) == nil, "queue controller registered")
	}
	nBefore := verif.Choose("writesBeforeStart", nBeforeMax+1)
	for i := 0; i < nBefore; i++ {
		write(ctx, st, v.twoPrimary || v.mapped)
	}
	// versions of the mapped kind at start: mapped inputs have no start-up listing, only later changes count
	bAtStart := map[string]uint64{}
	for _, id := range ids {
		if b, berr := st.Get(ctx, resource.NewMetadata(tres.NS, tres.TypeB, id, resource.VersionUndefined)); berr == nil {
			bAtStart[id] = b.Metadata().Version().Value()
		}
	}
	go rt.Run(ctx) //nolint:errcheck
	up := false    // the runtime has settled at least once since start (its watches are established)
	n := verif.Choose("writes", nw+1)
	for i := 0; i < n; i++ {
		if verif.Choose("settle", 2) == 1 {
			verif.Quiesce()
			up = true
		}
		// a mapped input is only notified for changes after its watch is established
		write(ctx, st, v.mapped && up || v.twoPrimary)
	}
	verif.Quiesce() // the system goes quiet
	for _, id := range ids {
		cur := current(ctx, st, id)
		if !v.byID || id == "a" {
			if !v.destroyReady {
				verif.Assert(pc.last[id] == cur, "plain controller: the last state it read for its input is the current state (no lost wake-up)")
			} else if r, gerr := st.Get(ctx, resource.NewMetadata(tres.NS, tres.TypeA, id, resource.VersionUndefined)); gerr == nil && r.Metadata().Phase() == resource.PhaseTearingDown && r.Metadata().Finalizers().Empty() {
				verif.Assert(pc.last[id] == cur, "destroy-ready input: every resource currently tearing down without finalizers has been observed in that state")
				verif.Cover("destroy-ready observed")
			}
		}
		if v.dynamic {
			verif.Cover("input added later")
		} else if cur.found {
			verif.Assert(qc.last[id] == cur, "queue controller: the last state it read for the item is the current state")
		} else if lo, seen := qc.last[id]; seen {
			verif.Assert(!lo.found, "queue controller: a destroyed item was last seen as gone")
		}
		if b, berr := st.Get(ctx, resource.NewMetadata(tres.NS, tres.TypeB, id, resource.VersionUndefined)); berr == nil && v.twoPrimary {
			verif.Assert(qc.lastB[id] == b.Metadata().Version().Value(), "queue controller: every primary input kind is listed at start-up and followed afterwards")
			if nBefore > 0 {
				verif.Cover("second primary kind pre-existing")
			}
		} else if berr == nil && b.Metadata().Version().Value() != bAtStart[id] {
			verif.Assert(qc.lastMapped[id] == b.Metadata().Version().Value(), "a mapped input change reaches the mapper with the current state")
			verif.Cover("mapped input seen")
		}
		if v.cached {
			cr, cerr := rt.CachedState().Get(ctx, resource.NewMetadata(tres.NS, tres.TypeA, id, resource.VersionUndefined))
			verif.Assert((cerr == nil) == cur.found && (cerr != nil || cr.Metadata().Version().Value() == cur.version), "when the system is quiet cached reads equal uncached reads")
			verif.Cover("cached kind")
			// the cached state evaluates list options like the uncached one
			kindA := resource.NewMetadata(tres.NS, tres.TypeA, "", resource.VersionUndefined)
			cl, clerr := rt.CachedState().List(ctx, kindA, state.WithLabelQuery(resource.LabelExists("no-such-label")))
			ul, ulerr := st.List(ctx, kindA, state.WithLabelQuery(resource.LabelExists("no-such-label")))
			verif.Assert(clerr == nil && ulerr == nil && len(cl.Items) == len(ul.Items), "a selector-filtered cached List equals the uncached one when the system is quiet")
			call, _ := rt.CachedState().List(ctx, kindA)
			uall, _ := st.List(ctx, kindA)
			verif.Assert(len(call.Items) == len(uall.Items), "an unfiltered cached List equals the uncached one when the system is quiet")
		}
	}
	if nBefore > 0 {
		verif.Cover("pre-existing input")
	}
	if n > 0 {
		verif.Cover("write after start")
	}
}

// moreWrites: the thorough tier is the union of two explorations - the quick number of writes under
// the larger delay bound (registry: 1), and one more write under the quick delay bound (0).
func moreWrites() int {
	if verif.Tier() == "thorough" && verif.Choose("moreWrites", 2) == 1 {
		verif.SetPreemptions(0)
		return 1
	}
	return 0
}

// H_Assembled: the real Runtime with a plain controller (weak input by kind or by ID) and a queue
// controller on the in-memory state; after any history of writes issued before or after start, with
// or without settling in between, the last state each controller read is the current state.
func H_Assembled() {
	nw := 2 + moreWrites()
	assembled(variant{byID: verif.Choose("plainInputByID", 2) == 1}, 1, nw)
}

// H_AssembledKinds: the same with a cached input kind, a destroy-ready input and a mapped input.
func H_AssembledKinds() {
	nw := 1 // both tiers; the thorough tier only deepens the delay bound (one more write: 770 000 paths)
	v := variant{}
	switch verif.Choose("variant", 5) {
	case 0:
		v.cached = true
	case 1:
		v.destroyReady = true
	case 2:
		v.mapped = true
	case 3:
		v.dynamic = true
	case 4:
		v.twoPrimary = true
	}
	nBefore := 0
	if v.destroyReady || v.cached || v.dynamic || v.twoPrimary || v.mapped {
		nBefore = 1
	}
	assembled(v, nBefore, nw+b2i(v.mapped || v.destroyReady || v.dynamic))
}

func b2i(b bool) int {
	if b {
		return 1
	}
	return 0
}
