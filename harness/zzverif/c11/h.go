package c11

import (
	"context"
	"time"

	"github.com/cosi-project/runtime/api/v1alpha1"
	"github.com/cosi-project/runtime/pkg/resource"
	"github.com/cosi-project/runtime/pkg/state"
	"github.com/cosi-project/runtime/pkg/state/impl/inmem"
	"github.com/cosi-project/runtime/pkg/state/impl/namespaced"
	"github.com/cosi-project/runtime/pkg/state/protobuf/client"
	"github.com/cosi-project/runtime/pkg/state/protobuf/server"
	"github.com/cosi-project/runtime/zzverif/tres"
	"github.com/cosi-project/runtime/zzverif/verif"
)

const id = "r"

func ptr() resource.Metadata {
	return resource.NewMetadata(tres.NS, tres.TypeA, id, resource.VersionUndefined)
}

func classOf(err error) int {
	switch {
	case err == nil:
		return 0
	case state.IsNotFoundError(err):
		return 1
	case state.IsOwnerConflictError(err):
		return 2
	case state.IsPhaseConflictError(err):
		return 3
	case state.IsConflictError(err):
		return 4
	}
	return 5
}

type twin struct {
	direct state.State // the wrapped state accessed directly
	remote state.State // an identical state behind client adapter + server
	sh     *shim
}

func newTwin(old bool) *twin {
	tres.RegisterProto()
	backend := namespaced.NewState(inmem.Build)
	sh := &shim{srv: server.NewState(backend), old: old}
	return &twin{
		direct: state.WrapCore(namespaced.NewState(inmem.Build)),
		remote: state.WrapCore(client.NewAdapter(sh)),
		sh:     sh,
	}
}

// both performs the same operation on both states and compares the outcome.
func (t *twin) both(label string, op func(st state.State) (resource.Resource, bool, error)) {
	rd, bd, ed := op(t.direct)
	rr, br, er := op(t.remote)
	verif.Assert(classOf(ed) == classOf(er), label+": same success/error class through the remote handle")
	verif.Assert(bd == br, label+": same boolean result")
	if ed == nil && rd != nil {
		verif.Assert(rr != nil && sameMD(rd.Metadata(), rr.Metadata()) && tres.SpecOf(rd) == tres.SpecOf(rr), label+": same resulting object (version, owner, phase, finalizers, labels, spec)")
		// the update time stamped by the store is written back into the caller's object on both paths
		ctx := context.Background()
		sd, gd := t.direct.Get(ctx, rd.Metadata())
		sr, gr := t.remote.Get(ctx, rr.Metadata())
		if gd == nil && gr == nil {
			verif.Assert(rd.Metadata().Updated().Equal(sd.Metadata().Updated()), label+": update time written back (direct)")
			verif.Assert(rr.Metadata().Updated().Equal(sr.Metadata().Updated()), label+": same write-back of the update time through the remote handle")
		}
	}
}

func sameMD(a, b *resource.Metadata) bool {
	return verif.And(a.ID() == b.ID(), a.Namespace() == b.Namespace(), a.Type() == b.Type(), a.Owner() == b.Owner(), a.Version().Value() == b.Version().Value(),
		a.Phase() == b.Phase(), a.Finalizers().Has("f") == b.Finalizers().Has("f"), len(*a.Finalizers()) == len(*b.Finalizers()), a.Labels().Equal(*b.Labels()))
}

func (t *twin) sameStored(ctx context.Context, label string) {
	rd, ed := t.direct.Get(ctx, ptr())
	rr, er := t.remote.Get(ctx, ptr())
	verif.Assert((ed == nil) == (er == nil), label+": same existence in both states")
	if ed == nil && er == nil {
		verif.Assert(sameMD(rd.Metadata(), rr.Metadata()) && tres.SpecOf(rd) == tres.SpecOf(rr), label+": same stored resource in both states")
	}
}

// H_Transparency: one operation with arbitrary options from an arbitrary small
// pre-state gives the same outcome through client adapter + server as directly.
func H_Transparency() {
	ctx := context.Background()
	old := verif.Choose("oldServer", 2) == 1
	t := newTwin(old)
	storedOwner := verif.Atom("storedOwner")
	// pre-state
	if verif.Choose("present", 2) == 1 {
		t.both("pre create", func(st state.State) (resource.Resource, bool, error) {
			r := tres.NewA(tres.NS, id, "v1")
			r.Metadata().Labels().Set("l", "x")
			return r, false, st.Create(ctx, r, state.WithCreateOwner(storedOwner))
		})
		if verif.Choose("finalizer", 2) == 1 {
			t.both("pre finalizer", func(st state.State) (resource.Resource, bool, error) {
				return nil, false, st.AddFinalizer(ctx, ptr(), "f")
			})
		}
		if verif.Choose("tearingDown", 2) == 1 {
			t.both("pre teardown", func(st state.State) (resource.Resource, bool, error) {
				ready, err := st.Teardown(ctx, ptr(), state.WithTeardownOwner(storedOwner))
				return nil, ready, err
			})
		}
	}
	owner := verif.Atom("callerOwner")
	switch verif.Choose("op", 7) {
	case 0:
		verif.Case("Get")
		t.both("Get", func(st state.State) (resource.Resource, bool, error) {
			r, err := st.Get(ctx, ptr())
			return r, false, err
		})
	case 1:
		verif.Case("Create")
		t.both("Create", func(st state.State) (resource.Resource, bool, error) {
			r := tres.NewA(tres.NS, id, "v2")
			time.Sleep(time.Second) // the object is older than the call: the store's stamp differs from the caller's
			err := st.Create(ctx, r, state.WithCreateOwner(owner))
			return r, false, err // the caller's object is written back
		})
	case 2:
		verif.Case("Update")
		fresh := verif.Choose("versionFresh", 2) == 1
		exp := verif.Choose("expectedPhase", 3)
		t.both("Update", func(st state.State) (resource.Resource, bool, error) {
			var upd resource.Resource
			cur, gerr := st.Get(ctx, ptr())
			if gerr == nil && fresh {
				upd = cur
			} else {
				upd = tres.NewA(tres.NS, id, "")
				upd.Metadata().SetOwner(owner) //nolint:errcheck
			}
			upd.(*tres.A).TypedSpec().S = "v3"
			opts := []state.UpdateOption{state.WithUpdateOwner(owner)}
			switch exp {
			case 1:
				opts = append(opts, state.WithExpectedPhaseAny())
			case 2:
				opts = append(opts, state.WithExpectedPhase(resource.PhaseTearingDown))
			}
			time.Sleep(time.Second)
			err := st.Update(ctx, upd, opts...)
			return upd, false, err
		})
	case 3:
		verif.Case("Destroy")
		t.both("Destroy", func(st state.State) (resource.Resource, bool, error) {
			return nil, false, st.Destroy(ctx, ptr(), state.WithDestroyOwner(owner))
		})
	case 4:
		verif.Case("Teardown")
		t.both("Teardown", func(st state.State) (resource.Resource, bool, error) {
			ready, err := st.Teardown(ctx, ptr(), state.WithTeardownOwner(owner))
			return nil, ready, err
		})
		// a second call exercises the sticky fallback
		t.both("second Teardown", func(st state.State) (resource.Resource, bool, error) {
			ready, err := st.Teardown(ctx, ptr(), state.WithTeardownOwner(owner))
			return nil, ready, err
		})
		if old {
			verif.Assert(t.sh.teardownCalls == 1, "against a server without the Teardown RPC the RPC is attempted once (sticky fallback)")
			verif.Cover("sticky teardown fallback")
		}
	case 5:
		verif.Case("List")
		t.both("List", func(st state.State) (resource.Resource, bool, error) {
			l, err := st.List(ctx, ptr())
			if err == nil && len(l.Items) == 1 {
				return l.Items[0], true, nil
			}
			return nil, false, err
		})
	case 6:
		verif.Case("Modify")
		t.both("Modify", func(st state.State) (resource.Resource, bool, error) {
			r, err := st.ModifyWithResult(ctx, tres.NewA(tres.NS, id, "m"), func(x resource.Resource) error {
				x.Metadata().Labels().Set("l", "y")
				return nil
			}, state.WithUpdateOwner(owner))
			return r, false, err
		})
	}
	t.sameStored(ctx, "afterwards")
	verif.Cover("compared")
}

// H_ServerTotal: no request a client can form crashes the server.
func H_ServerTotal() {
	ctx := context.Background()
	tres.RegisterProto()
	backend := namespaced.NewState(inmem.Build)
	srv := server.NewState(backend)
	st := state.WrapCore(backend)
	if verif.Choose("present", 2) == 1 {
		verif.Assert(st.Create(ctx, tres.NewA(tres.NS, id, "v1")) == nil, "pre create")
	}
	withOptions := verif.Choose("optionsPresent", 2) == 1
	mkRes := func() *v1alpha1.Resource {
		switch verif.Choose("resourceForm", 4) {
		case 0:
			return nil
		case 1:
			return &v1alpha1.Resource{}
		case 2:
			return &v1alpha1.Resource{Metadata: &v1alpha1.Metadata{Namespace: tres.NS, Type: tres.TypeA, Id: id, Version: verif.String("version", 1), Phase: "running"}, Spec: &v1alpha1.Spec{}}
		}
		return &v1alpha1.Resource{Metadata: &v1alpha1.Metadata{Namespace: tres.NS, Type: tres.TypeA, Id: id, Version: "1", Phase: "running"}, Spec: &v1alpha1.Spec{ProtoSpec: []byte{1, 'x'}}}
	}
	mkTerms := func() []*v1alpha1.LabelTerm {
		n := verif.Choose("nterms", 2)
		var ts []*v1alpha1.LabelTerm
		for i := 0; i < n; i++ {
			t := &v1alpha1.LabelTerm{Key: "l", Op: v1alpha1.LabelTerm_Operation(verif.Int32("op")), Invert: verif.Bool("invert")}
			verif.Assume(verif.And(t.Op >= -1, t.Op <= 8))
			for k, nv := 0, verif.Choose("nvalues", 3); k < nv; k++ {
				t.Value = append(t.Value, "5")
			}
			ts = append(ts, t)
		}
		return ts
	}
	switch verif.Choose("rpc", 7) {
	case 0:
		verif.Case("Get")
		req := &v1alpha1.GetRequest{Namespace: tres.NS, Type: tres.TypeA, Id: id}
		if withOptions {
			req.Options = &v1alpha1.GetOptions{}
		}
		srv.Get(ctx, req) //nolint:errcheck
	case 1:
		verif.Case("Create")
		req := &v1alpha1.CreateRequest{Resource: mkRes()}
		if withOptions {
			req.Options = &v1alpha1.CreateOptions{Owner: "o"}
		}
		srv.Create(ctx, req) //nolint:errcheck
	case 2:
		verif.Case("Update")
		req := &v1alpha1.UpdateRequest{NewResource: mkRes()}
		if withOptions {
			req.Options = &v1alpha1.UpdateOptions{Owner: "o"}
			if verif.Choose("expectedPhase", 2) == 1 {
				p := verif.String("phase", 7)
				req.Options.ExpectedPhase = &p
			}
		}
		srv.Update(ctx, req) //nolint:errcheck
	case 3:
		verif.Case("Destroy")
		req := &v1alpha1.DestroyRequest{Namespace: tres.NS, Type: tres.TypeA, Id: id}
		if withOptions {
			req.Options = &v1alpha1.DestroyOptions{}
		}
		srv.Destroy(ctx, req) //nolint:errcheck
	case 4:
		verif.Case("Teardown")
		req := &v1alpha1.TeardownRequest{Namespace: tres.NS, Type: tres.TypeA, Id: id}
		if withOptions {
			req.Options = &v1alpha1.TeardownOptions{}
		}
		srv.Teardown(ctx, req) //nolint:errcheck
	case 5:
		verif.Case("List")
		req := &v1alpha1.ListRequest{Namespace: tres.NS, Type: tres.TypeA}
		if withOptions {
			req.Options = &v1alpha1.ListOptions{LabelQuery: []*v1alpha1.LabelQuery{{Terms: mkTerms()}}}
			if verif.Choose("idQuery", 2) == 1 {
				req.Options.IdQuery = &v1alpha1.IDQuery{Regexp: "r"}
			}
		}
		srv.List(req, &listStream{ctx: ctx}) //nolint:errcheck
	case 6:
		verif.Case("TeardownAndDestroy")
		req := &v1alpha1.TeardownAndDestroyRequest{Namespace: tres.NS, Type: tres.TypeA, Id: id}
		if withOptions {
			req.Options = &v1alpha1.TeardownAndDestroyOptions{}
		}
		srv.TeardownAndDestroy(ctx, req) //nolint:errcheck
	}
	verif.Cover("handler returned")
}
