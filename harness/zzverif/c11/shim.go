package c11

import (
	"context"
	"io"

	"google.golang.org/grpc"
	"google.golang.org/grpc/codes"
	"google.golang.org/grpc/status"

	"github.com/cosi-project/runtime/api/v1alpha1"
	"github.com/cosi-project/runtime/pkg/state"
	"github.com/cosi-project/runtime/pkg/state/protobuf/client"
	"github.com/cosi-project/runtime/pkg/state/protobuf/server"
)

// shim is a v1alpha1.StateClient that calls the server object directly (no
// wire): the transport is assumed in-order and lossless.
type shim struct {
	srv *server.State
	// old servers lack the native Teardown / TeardownAndDestroy RPCs
	old           bool
	teardownCalls int
	tadCalls      int
	transport     *Transport
}

var _ v1alpha1.StateClient = (*shim)(nil)

func (s *shim) Get(ctx context.Context, in *v1alpha1.GetRequest, _ ...grpc.CallOption) (*v1alpha1.GetResponse, error) {
	return s.srv.Get(ctx, in)
}

func (s *shim) Create(ctx context.Context, in *v1alpha1.CreateRequest, _ ...grpc.CallOption) (*v1alpha1.CreateResponse, error) {
	return s.srv.Create(ctx, in)
}

func (s *shim) Update(ctx context.Context, in *v1alpha1.UpdateRequest, _ ...grpc.CallOption) (*v1alpha1.UpdateResponse, error) {
	return s.srv.Update(ctx, in)
}

func (s *shim) Destroy(ctx context.Context, in *v1alpha1.DestroyRequest, _ ...grpc.CallOption) (*v1alpha1.DestroyResponse, error) {
	return s.srv.Destroy(ctx, in)
}

func (s *shim) Teardown(ctx context.Context, in *v1alpha1.TeardownRequest, _ ...grpc.CallOption) (*v1alpha1.TeardownResponse, error) {
	s.teardownCalls++
	if s.old {
		return nil, status.Error(codes.Unimplemented, "method Teardown not implemented")
	}
	return s.srv.Teardown(ctx, in)
}

func (s *shim) TeardownAndDestroy(ctx context.Context, in *v1alpha1.TeardownAndDestroyRequest, _ ...grpc.CallOption) (*v1alpha1.TeardownAndDestroyResponse, error) {
	s.tadCalls++
	if s.old {
		return nil, status.Error(codes.Unimplemented, "method TeardownAndDestroy not implemented")
	}
	return s.srv.TeardownAndDestroy(ctx, in)
}

// listStream collects what the server sends; listClient replays it to the client.
type listStream struct {
	grpc.ServerStream
	ctx   context.Context
	items []*v1alpha1.ListResponse
}

func (l *listStream) Context() context.Context            { return l.ctx }
func (l *listStream) Send(m *v1alpha1.ListResponse) error { l.items = append(l.items, m); return nil }

type listClient struct {
	grpc.ClientStream
	items []*v1alpha1.ListResponse
	pos   int
}

func (l *listClient) Recv() (*v1alpha1.ListResponse, error) {
	if l.pos >= len(l.items) {
		return nil, io.EOF
	}
	m := l.items[l.pos]
	l.pos++
	return m, nil
}

func (s *shim) List(ctx context.Context, in *v1alpha1.ListRequest, _ ...grpc.CallOption) (grpc.ServerStreamingClient[v1alpha1.ListResponse], error) {
	st := &listStream{ctx: ctx}
	if err := s.srv.List(in, st); err != nil {
		return nil, err
	}
	return &listClient{items: st.items}, nil
}

// Transport is the fault-injection handle of a piped watch transport.
type Transport struct {
	cur      *pipe
	Down     int // refuse the next Down attempts to establish a watch stream
	Attempts int
}

// Break tears the current watch stream down: the client's Recv fails with Unavailable, the
// server-side handler's context is cancelled.  Messages not yet received are lost.
func (t *Transport) Break() {
	if t.cur != nil {
		t.cur.brk()
	}
}

// pipe is one watch stream: the server handler runs as a goroutine and hands every message to the
// client synchronously (no buffering: a message the client has not taken is lost when the stream breaks).
type pipe struct {
	ctx    context.Context
	cancel context.CancelFunc
	msgs   chan *v1alpha1.WatchResponse
	done   chan error
	broken chan struct{}
}

func (p *pipe) brk() {
	select {
	case <-p.broken:
	default:
		close(p.broken)
		p.cancel()
	}
}

type pipeServer struct {
	grpc.ServerStream
	p *pipe
}

func (s pipeServer) Context() context.Context { return s.p.ctx }
func (s pipeServer) Send(m *v1alpha1.WatchResponse) error {
	select {
	case s.p.msgs <- m:
		return nil
	case <-s.p.ctx.Done():
		return status.Error(codes.Canceled, "stream closed")
	}
}

type pipeClient struct {
	grpc.ClientStream
	p *pipe
}

func (c pipeClient) Recv() (*v1alpha1.WatchResponse, error) {
	select {
	case <-c.p.broken:
		return nil, status.Error(codes.Unavailable, "transport is closing")
	default:
	}
	select {
	case m := <-c.p.msgs:
		return m, nil
	case <-c.p.broken:
		return nil, status.Error(codes.Unavailable, "transport is closing")
	case err := <-c.p.done:
		if err == nil {
			return nil, io.EOF
		}
		if _, ok := status.FromError(err); ok {
			return nil, err
		}
		return nil, status.Error(codes.Unknown, err.Error())
	}
}

func (s *shim) Watch(ctx context.Context, in *v1alpha1.WatchRequest, _ ...grpc.CallOption) (grpc.ServerStreamingClient[v1alpha1.WatchResponse], error) {
	if s.transport == nil {
		return nil, status.Error(codes.Unavailable, "watch is not part of this harness")
	}
	s.transport.Attempts++
	if s.transport.Down > 0 {
		s.transport.Down--
		return nil, status.Error(codes.Unavailable, "connection refused")
	}
	pctx, cancel := context.WithCancel(ctx)
	p := &pipe{ctx: pctx, cancel: cancel, msgs: make(chan *v1alpha1.WatchResponse), done: make(chan error, 1), broken: make(chan struct{})}
	s.transport.cur = p
	// the server works on its own copy of the request (the client mutates its request when retrying)
	req := in.CloneVT()
	go func() {
		p.done <- s.srv.Watch(req, pipeServer{p: p})
	}()
	return pipeClient{p: p}, nil
}

// NewRemoteWithWatch is NewRemote with watch streams piped to the real server handler, and a handle to
// break them.
func NewRemoteWithWatch(backend state.CoreState, opts ...client.AdapterOption) (state.CoreState, *Transport) {
	t := &Transport{}
	return client.NewAdapter(&shim{srv: server.NewState(backend), transport: t}, opts...), t
}

// NewRemote returns a state handle that reaches backend through the client
// adapter and the server (no wire); used by other harness packages.
func NewRemote(backend state.CoreState) state.CoreState {
	return client.NewAdapter(&shim{srv: server.NewState(backend)})
}
