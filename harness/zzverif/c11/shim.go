package c11

import (
	"context"
	"io"

	"google.golang.org/grpc"
	"google.golang.org/grpc/codes"
	"google.golang.org/grpc/status"

	"github.com/cosi-project/runtime/api/v1alpha1"
	"github.com/cosi-project/runtime/pkg/state"
	"github.com/cosi-project/runtime/pkg/state/protobuf/client"
	"github.com/cosi-project/runtime/pkg/state/protobuf/server"
)

// shim is a v1alpha1.StateClient that calls the server object directly (no
// wire): the transport is assumed in-order and lossless.
type shim struct {
	srv *server.State
	// old servers lack the native Teardown / TeardownAndDestroy RPCs
	old           bool
	teardownCalls int
	tadCalls      int
}

var _ v1alpha1.StateClient = (*shim)(nil)

func (s *shim) Get(ctx context.Context, in *v1alpha1.GetRequest, _ ...grpc.CallOption) (*v1alpha1.GetResponse, error) {
	return s.srv.Get(ctx, in)
}

func (s *shim) Create(ctx context.Context, in *v1alpha1.CreateRequest, _ ...grpc.CallOption) (*v1alpha1.CreateResponse, error) {
	return s.srv.Create(ctx, in)
}

func (s *shim) Update(ctx context.Context, in *v1alpha1.UpdateRequest, _ ...grpc.CallOption) (*v1alpha1.UpdateResponse, error) {
	return s.srv.Update(ctx, in)
}

func (s *shim) Destroy(ctx context.Context, in *v1alpha1.DestroyRequest, _ ...grpc.CallOption) (*v1alpha1.DestroyResponse, error) {
	return s.srv.Destroy(ctx, in)
}

func (s *shim) Teardown(ctx context.Context, in *v1alpha1.TeardownRequest, _ ...grpc.CallOption) (*v1alpha1.TeardownResponse, error) {
	s.teardownCalls++
	if s.old {
		return nil, status.Error(codes.Unimplemented, "method Teardown not implemented")
	}
	return s.srv.Teardown(ctx, in)
}

func (s *shim) TeardownAndDestroy(ctx context.Context, in *v1alpha1.TeardownAndDestroyRequest, _ ...grpc.CallOption) (*v1alpha1.TeardownAndDestroyResponse, error) {
	s.tadCalls++
	if s.old {
		return nil, status.Error(codes.Unimplemented, "method TeardownAndDestroy not implemented")
	}
	return s.srv.TeardownAndDestroy(ctx, in)
}

// listStream collects what the server sends; listClient replays it to the client.
type listStream struct {
	grpc.ServerStream
	ctx   context.Context
	items []*v1alpha1.ListResponse
}

func (l *listStream) Context() context.Context             { return l.ctx }
func (l *listStream) Send(m *v1alpha1.ListResponse) error { l.items = append(l.items, m); return nil }

type listClient struct {
	grpc.ClientStream
	items []*v1alpha1.ListResponse
	pos   int
}

func (l *listClient) Recv() (*v1alpha1.ListResponse, error) {
	if l.pos >= len(l.items) {
		return nil, io.EOF
	}
	m := l.items[l.pos]
	l.pos++
	return m, nil
}

func (s *shim) List(ctx context.Context, in *v1alpha1.ListRequest, _ ...grpc.CallOption) (grpc.ServerStreamingClient[v1alpha1.ListResponse], error) {
	st := &listStream{ctx: ctx}
	if err := s.srv.List(in, st); err != nil {
		return nil, err
	}
	return &listClient{items: st.items}, nil
}

func (s *shim) Watch(ctx context.Context, in *v1alpha1.WatchRequest, _ ...grpc.CallOption) (grpc.ServerStreamingClient[v1alpha1.WatchResponse], error) {
	return nil, status.Error(codes.Unavailable, "watch is not part of this harness")
}

// NewRemote returns a state handle that reaches backend through the client
// adapter and the server (no wire); used by other harness packages.
func NewRemote(backend state.CoreState) state.CoreState {
	return client.NewAdapter(&shim{srv: server.NewState(backend)})
}
