// Package c02: watch streams as exact change logs, through the public state API.
package c02

import (
	"context"

	"github.com/cosi-project/runtime/pkg/resource"
	"github.com/cosi-project/runtime/pkg/state"
	"github.com/cosi-project/runtime/pkg/state/impl/inmem"
	"github.com/cosi-project/runtime/pkg/state/impl/namespaced"
	"github.com/cosi-project/runtime/zzverif/tres"
	"github.com/cosi-project/runtime/zzverif/verif"
)

var ids = []string{"a", "b"}

type rv struct {
	version uint64
	phase   resource.Phase
	n       int64
}

func val(r resource.Resource) rv {
	return rv{r.Metadata().Version().Value(), r.Metadata().Phase(), tres.SpecOf(r).N}
}

// write performs one committed-or-rejected write on kind A (ids a, b) or on the foreign kind B.
func write(ctx context.Context, st state.State) {
	w := verif.Choose("write", 9)
	id := ids[w%2]
	pa := resource.NewMetadata(tres.NS, tres.TypeA, id, resource.VersionUndefined)
	switch w / 2 {
	case 0:
		st.Create(ctx, tres.NewA(tres.NS, id, "v")) //nolint:errcheck
	case 1:
		if r, err := st.Get(ctx, pa); err == nil {
			r.(*tres.A).TypedSpec().N++
			st.Update(ctx, r, state.WithExpectedPhaseAny()) //nolint:errcheck
		}
	case 2:
		st.Teardown(ctx, pa) //nolint:errcheck
	case 3:
		st.Destroy(ctx, pa) //nolint:errcheck
	case 4:
		// a change to another kind must never leak into the stream
		if err := st.Create(ctx, tres.NewB(tres.NS, id, "other")); err != nil {
			st.Destroy(ctx, resource.NewMetadata(tres.NS, tres.TypeB, id, resource.VersionUndefined)) //nolint:errcheck
		}
	}
}

// H_ReplayReproduces: a watch (one resource / kind / aggregated kind, with or without bootstrap
// contents) established after an arbitrary history and followed by an arbitrary history: replaying the
// delivered events over the initial snapshot reproduces the store's contents, every event is
// consistent with the replica built so far, nothing is delivered twice and nothing leaks in.
func H_ReplayReproduces() {
	ctx, cancel := context.WithCancel(context.Background())
	defer cancel()
	st := state.WrapCore(namespaced.NewState(inmem.Build))
	na := 2
	if verif.Tier() == "thorough" {
		// thorough = (<=1 write under the delay bound 1) + (<=2 writes under the delay bound 0)
		if verif.Choose("moreWrites", 2) == 1 {
			verif.SetPreemptions(0)
		} else {
			na = 1
		}
	}
	// pre-state: each id absent, running or tearing down (at some version)
	for _, id := range ids {
		pre := verif.Choose("pre", 3)
		if pre > 0 {
			verif.Assert(st.Create(ctx, tres.NewA(tres.NS, id, "v")) == nil, "pre-state")
		}
		if pre == 2 {
			_, err := st.Teardown(ctx, resource.NewMetadata(tres.NS, tres.TypeA, id, resource.VersionUndefined))
			verif.Assert(err == nil, "pre-state")
		}
	}
	kind := resource.NewMetadata(tres.NS, tres.TypeA, "", resource.VersionUndefined)
	watched := func(id string) bool { return true }
	replica := map[string]rv{}
	mode := verif.Choose("mode", 3)
	bootstrap := mode != 0 && verif.Choose("bootstrap", 2) == 1
	single := make(chan state.Event)
	batches := make(chan []state.Event)
	var pending []state.Event
	recv := func() state.Event {
		if mode == 2 {
			if len(pending) == 0 {
				pending = <-batches
				verif.Assert(len(pending) > 0, "aggregated batches are never empty")
			}
			ev := pending[0]
			pending = pending[1:]
			return ev
		}
		return <-single
	}
	apply := func(ev state.Event) {
		verif.Assert(ev.Resource != nil && ev.Resource.Metadata().Type() == tres.TypeA && ev.Resource.Metadata().Namespace() == tres.NS && watched(ev.Resource.Metadata().ID()),
			"only changes of the watched kind/resource are delivered")
		id := ev.Resource.Metadata().ID()
		prev, had := replica[id]
		switch ev.Type {
		case state.Created:
			verif.Assert(!had, "Created is delivered only for a resource absent from the replica")
			replica[id] = val(ev.Resource)
		case state.Updated:
			verif.Assert(had && ev.Old != nil && val(ev.Old) == prev, "an Updated event's old value is the previously delivered value")
			verif.Assert(ev.Resource.Metadata().Version().Value() == prev.version+1, "an Updated event's new version is exactly one higher")
			replica[id] = val(ev.Resource)
			verif.Cover("update delivered")
		case state.Destroyed:
			verif.Assert(had && val(ev.Resource) == prev, "Destroyed is delivered for the value the replica holds")
			delete(replica, id)
			verif.Cover("destroy delivered")
		default:
			verif.Fail("unexpected event type in the stream")
		}
	}
	// the initial snapshot: what the subscriber knows when the watch is established
	snapshot := func() map[string]rv {
		m := map[string]rv{}
		l, err := st.List(ctx, kind)
		verif.Assert(err == nil, "list")
		for _, r := range l.Items {
			m[r.Metadata().ID()] = val(r)
		}
		return m
	}
	initial := snapshot()
	switch mode {
	case 0:
		wid := ids[verif.Choose("watchedID", 2)]
		watched = func(id string) bool { return id == wid }
		verif.Assert(st.Watch(ctx, resource.NewMetadata(tres.NS, tres.TypeA, wid, resource.VersionUndefined), single) == nil, "watch established")
		// a single-resource watch always starts with the current state
		ev := recv()
		cur, exists := initial[wid]
		if exists {
			verif.Assert(ev.Type == state.Created && val(ev.Resource) == cur, "the first event of a single-resource watch is the current state")
			replica[wid] = cur
		} else {
			verif.Assert(ev.Type == state.Destroyed, "the first event of a single-resource watch on an absent resource says so")
		}
	case 1, 2:
		opts := []state.WatchKindOption{}
		if bootstrap {
			opts = append(opts, state.WithBootstrapContents(true))
		}
		if mode == 1 {
			verif.Assert(st.WatchKind(ctx, kind, single, opts...) == nil, "watch established")
		} else {
			verif.Assert(st.WatchKindAggregated(ctx, kind, batches, opts...) == nil, "watch established")
		}
		if bootstrap {
			for {
				ev := recv()
				if ev.Type == state.Bootstrapped {
					break
				}
				verif.Assert(ev.Type == state.Created, "bootstrap contents are Created events")
				apply(ev)
			}
			verif.Assert(len(replica) == len(initial), "bootstrap delivers exactly the current contents")
			for id, v := range initial {
				verif.Assert(replica[id] == v, "bootstrap delivers exactly the current contents")
			}
			verif.Cover("bootstrapped")
		} else {
			replica = initial
		}
	}
	// an arbitrary history follows; the subscriber reads eagerly or lazily
	expect := 0
	got := 0
	for i, n := 0, verif.Choose("after", na+1); i < n; i++ {
		before := snapshot()
		write(ctx, st)
		after := snapshot()
		for _, id := range ids {
			if watched(id) {
				b, hb := before[id]
				a, ha := after[id]
				if hb != ha || b != a {
					expect++
				}
			}
		}
		if verif.Choose("readNow", 2) == 1 {
			for got < expect {
				apply(recv())
				got++
			}
		}
	}
	for got < expect {
		apply(recv())
		got++
	}
	verif.Quiesce()
	select {
	case ev := <-single:
		_ = ev
		verif.Fail("an event is delivered that corresponds to no committed change (duplicate or leak)")
	case b := <-batches:
		_ = b
		verif.Fail("an event is delivered that corresponds to no committed change (duplicate or leak)")
	default:
	}
	verif.Assert(len(pending) == 0, "an aggregated batch carries only committed changes")
	final := snapshot()
	for _, id := range ids {
		if watched(id) {
			f, hf := final[id]
			r, hr := replica[id]
			verif.Assert(hf == hr && f == r, "replaying the events over the initial snapshot reproduces the store's current contents")
		}
	}
	if expect > 0 {
		verif.Cover("changes delivered")
	}
}
