package c20

import (
	"github.com/ProtonMail/gopenpgp/v2/crypto"
	"github.com/ProtonMail/gopenpgp/v2/helper"
	"github.com/siderolabs/gen/xerrors"

	"github.com/cosi-project/runtime/api/key_storage"
	"github.com/cosi-project/runtime/pkg/keystorage"
	"github.com/cosi-project/runtime/zzverif/verif"
)

type keyPair struct{ pub, priv string }

var realKeys []keyPair

// keys returns three key pairs: model keys under the engine (PGP is a contract
// there), real generated x25519 keys in native replays.
func keys() []keyPair {
	if verif.Symbolic() {
		return []keyPair{{"pub:k1", "priv:k1"}, {"pub:k2", "priv:k2"}, {"pub:k3", "priv:k3"}}
	}
	if realKeys == nil {
		for _, n := range []string{"k1", "k2", "k3"} {
			priv, err := helper.GenerateKey(n, n+"@example.org", nil, "x25519", 0)
			if err != nil {
				panic(err)
			}
			k, err := crypto.NewKeyFromArmored(priv)
			if err != nil {
				panic(err)
			}
			pub, err := k.GetArmoredPublicKey()
			if err != nil {
				panic(err)
			}
			realKeys = append(realKeys, keyPair{pub, priv})
		}
	}
	return realKeys
}

var masterKey = []byte("0123456789abcdef0123456789abcdef")

type model struct {
	initialized bool
	slots       []slot // live slots
}

type slot struct {
	id  string
	key int // index of the key pair
}

func (m *model) find(id string) int {
	for i, s := range m.slots {
		if s.id == id {
			return i
		}
	}
	return -1
}

func sameKey(a, b []byte) bool {
	if len(a) != len(b) {
		return false
	}
	for i := range a {
		if a[i] != b[i] {
			return false
		}
	}
	return true
}

func symSlotID(name string, ids []string) string {
	if !symbolicIDs {
		return ids[verif.Choose(name, len(ids))]
	}
	id := verif.Atom(name)
	verif.Assume(verif.Or(id == ids[0], id == ids[1], id == ids[2]))
	return id
}

var symbolicIDs bool

// keyFor: slot i is meant to be opened by key pair i; "wrong" picks another pair.
func pickKey(name string, right int) int {
	if verif.Choose(name, 2) == 0 {
		return right
	}
	return (right + 1) % 3
}

// checkRecovery: every live slot's private key recovers the master key; every other combination fails.
func checkRecovery(ks *keystorage.KeyStorage, m *model, ids []string, ks3 []keyPair) {
	id := symSlotID("probeSlot", ids)
	k := verif.Choose("probeKey", 3)
	got, err := ks.GetMasterKey(id, ks3[k].priv)
	i := m.find(id)
	if i >= 0 && m.slots[i].key == k {
		verif.Assert(err == nil && sameKey(got, masterKey), "a live slot's private key recovers the original master key")
		verif.Cover("recovered")
	} else {
		verif.Assert(err != nil, "a deleted or never-added slot, or a wrong key, never yields the master key")
		if m.initialized && i < 0 {
			verif.Assert(xerrors.TagIs[keystorage.SlotNotFoundTag](err), "unknown slot is reported as slot-not-found")
		}
		verif.Cover("refused")
	}
}

// H_SlotHistory: any history of <=3 (quick) / <=4 (thorough) operations over 3 arbitrary slot ids and 3 key pairs.
func H_SlotHistory() {
	symbolicIDs = true
	ids := []string{verif.Atom("slotA"), verif.Atom("slotB"), verif.Atom("slotC")}
	verif.Assume(verif.And(ids[0] != ids[1], ids[0] != ids[2], ids[1] != ids[2], ids[0] != "", ids[1] != "", ids[2] != ""))
	history(ids, false)
}

// H_SlotSerialised: the same with concrete slot ids and marshal/unmarshal steps in between.
func H_SlotSerialised() {
	symbolicIDs = false
	ids := []string{"slot-a", "b", "slot/c"}
	ks3 := keys()
	ks := &keystorage.KeyStorage{}
	m := &model{}
	reload := func() {
		if verif.Choose("serialiseHere", 2) == 1 {
			data, err := ks.MarshalBinary()
			verif.Assert(err == nil, "marshal succeeds")
			ks = &keystorage.KeyStorage{}
			verif.Assert(ks.UnmarshalBinary(data) == nil, "unmarshal of marshalled storage succeeds")
			verif.Cover("serialised")
		}
	}
	verif.Assert(ks.Initialize(masterKey, ids[0], ks3[0].pub) == nil, "init")
	m.initialized, m.slots = true, []slot{{ids[0], 0}}
	reload()
	verif.Assert(ks.AddKeySlot(ids[1], ks3[1].pub, ids[0], ks3[0].priv) == nil, "add second slot")
	m.slots = append(m.slots, slot{ids[1], 1})
	reload()
	if verif.Choose("deleteFirst", 2) == 1 {
		verif.Assert(ks.DeleteKeySlot(ids[0], ks3[0].priv) == nil, "delete first slot")
		m.slots = m.slots[1:]
		reload()
	}
	checkRecovery(ks, m, ids, ks3)
}

func history(ids []string, withMarshal bool) {
	steps := 3
	nops := 3
	if withMarshal {
		nops = 4
	}
	ks3 := keys()
	ks := &keystorage.KeyStorage{}
	m := &model{}
	if !withMarshal && verif.Tier() == "thorough" && verif.Choose("seeded", 2) == 1 {
		// thorough: also the 3- and 4-call histories that begin with a successful Initialize (slot A,
		// the ids being arbitrary) and a successful AddKeySlot (slot B), i.e. from every two-slot state
		verif.Assert(ks.Initialize(masterKey, ids[0], ks3[0].pub) == nil, "first initialisation succeeds")
		nk := verif.Choose("newKey0", 2)
		verif.Assert(ks.AddKeySlot(ids[1], ks3[nk].pub, ids[0], ks3[0].priv) == nil, "a second slot authorised by the first is added")
		m.initialized = true
		m.slots = []slot{{ids[0], 0}, {ids[1], nk}}
		verif.Cover("from two slots")
		steps = 2
	}
	n := 1 + verif.Choose("nsteps", steps)
	for s := 0; s < n; s++ {
		switch verif.Choose("op", nops) {
		case 0:
			verif.Case("Initialize")
			id := symSlotID("initSlot", ids)
			k := verif.Choose("initKey", 2)
			err := ks.Initialize(masterKey, id, ks3[k].pub)
			if m.initialized {
				verif.Assert(err != nil && xerrors.TagIs[keystorage.AlreadyInitializedTag](err), "a second initialisation is refused")
				verif.Cover("second init refused")
			} else {
				verif.Assert(err == nil, "first initialisation succeeds")
				m.initialized = true
				m.slots = []slot{{id, k}}
			}
		case 1:
			verif.Case("AddKeySlot")
			newID := symSlotID("newSlot", ids)
			nk := verif.Choose("newKey", 3)
			oldID := symSlotID("oldSlot", ids)
			ok := verif.Choose("oldKey", 3)
			newPub := "this is not a public key"
			if nk < 2 {
				newPub = ks3[nk].pub
			} else {
				verif.Cover("malformed public key")
			}
			err := ks.AddKeySlot(newID, newPub, oldID, ks3[ok].priv)
			oi := m.find(oldID)
			should := m.initialized && m.find(newID) < 0 && oi >= 0 && m.slots[oi].key == ok && nk < 2
			verif.Assert((err == nil) == should, "a slot is added iff it is new and authorised by a live slot's key")
			if err == nil {
				m.slots = append(m.slots, slot{newID, nk})
				verif.Cover("slot added")
			} else if m.find(newID) >= 0 {
				verif.Assert(xerrors.TagIs[keystorage.SlotAlreadyExists](err), "an existing slot is never overwritten")
				verif.Cover("overwrite refused")
			}
		case 2:
			verif.Case("DeleteKeySlot")
			id := symSlotID("delSlot", ids)
			k := verif.Choose("delKey", 3)
			err := ks.DeleteKeySlot(id, ks3[k].priv)
			i := m.find(id)
			should := len(m.slots) > 1 && i >= 0 && m.slots[i].key == k
			verif.Assert((err == nil) == should, "a slot is deleted iff it is live, authorised by its own key and not the last one")
			if err == nil {
				m.slots = append(m.slots[:i:i], m.slots[i+1:]...)
				verif.Cover("slot deleted")
			} else if len(m.slots) == 1 {
				verif.Assert(xerrors.TagIs[keystorage.LastKeyTag](err), "the last slot can never be deleted")
				verif.Cover("last slot kept")
			}
		case 3:
			verif.Case("Marshal/Unmarshal")
			if !m.initialized {
				continue
			}
			data, err := ks.MarshalBinary()
			verif.Assert(err == nil, "marshal succeeds")
			ks = &keystorage.KeyStorage{}
			verif.Assert(ks.UnmarshalBinary(data) == nil, "unmarshal of marshalled storage succeeds")
			verif.Cover("serialised")
		}
	}
	verif.Case("recovery")
	checkRecovery(ks, m, ids, ks3)
}

// H_Tamper: any single corruption of the serialised storage is detected on the next key retrieval.
func H_Tamper() {
	ks3 := keys()
	ks := &keystorage.KeyStorage{}
	verif.Assert(ks.Initialize(masterKey, "a", ks3[0].pub) == nil, "init")
	if verif.Choose("secondSlot", 2) == 1 {
		verif.Assert(ks.AddKeySlot("b", ks3[1].pub, "a", ks3[0].priv) == nil, "add")
	}
	data, err := ks.MarshalBinary()
	verif.Assert(err == nil, "marshal")
	var st key_storage.Storage
	verif.Assert(st.UnmarshalVT(data) == nil, "decode")
	switch verif.Choose("corruption", 7) {
	case 0:
		verif.Case("encrypted key replaced by another slot's blob")
		other := &keystorage.KeyStorage{}
		verif.Assert(other.Initialize(masterKey, "a", ks3[0].pub) == nil, "other init")
		od, _ := other.MarshalBinary()
		var ost key_storage.Storage
		verif.Assert(ost.UnmarshalVT(od) == nil, "other decode")
		st.KeySlots["a"].EncryptedKey = ost.KeySlots["a"].EncryptedKey
	case 1:
		verif.Case("slot added behind the API")
		st.KeySlots["x"] = &key_storage.KeySlot{Algorithm: key_storage.Algorithm_PGP_AES_GCM_256, EncryptedKey: st.KeySlots["a"].EncryptedKey}
	case 2:
		verif.Case("integrity tag altered")
		i := verif.Choose("tagByte", len(st.KeysHmacHash))
		st.KeysHmacHash[i] ^= 0x01
	case 3:
		verif.Case("storage version altered")
		st.StorageVersion = 7
	case 4:
		verif.Case("algorithm altered")
		st.KeySlots["a"].Algorithm = 9
	case 5:
		verif.Case("integrity tag truncated or removed")
		n := verif.Choose("tagLength", len(st.KeysHmacHash)) // 0 = the field is absent in the serialised form
		st.KeysHmacHash = st.KeysHmacHash[:n]
		if n == 0 {
			st.KeysHmacHash = nil
			verif.Cover("tag removed")
		}
	case 6:
		verif.Case("slot removed behind the API")
		if _, ok := st.KeySlots["b"]; !ok {
			return
		}
		delete(st.KeySlots, "b")
		verif.Cover("slot removed behind the API")
	}
	bad, err := st.MarshalVT()
	verif.Assert(err == nil, "re-encode")
	ks2 := &keystorage.KeyStorage{}
	uerr := ks2.UnmarshalBinary(bad)
	if uerr == nil {
		_, gerr := ks2.GetMasterKey("a", ks3[0].priv)
		verif.Assert(gerr != nil, "tampering with the stored form is detected on the next key retrieval")
	}
	verif.Cover("tamper detected")
}
