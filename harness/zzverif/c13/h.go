package c13

import (
	"context"
	"time"

	"google.golang.org/grpc"
	"google.golang.org/grpc/codes"
	"google.golang.org/grpc/status"

	"github.com/cosi-project/runtime/api/v1alpha1"
	"github.com/cosi-project/runtime/pkg/resource"
	"github.com/cosi-project/runtime/pkg/state"
	"github.com/cosi-project/runtime/pkg/state/protobuf/client"
	"github.com/cosi-project/runtime/zzverif/tres"
	"github.com/cosi-project/runtime/zzverif/verif"
)

// scriptedServer is the server side of a watch reduced to its contract (C02/C12):
// an event log with bookmarks; a watch from bookmark b yields exactly the events
// after b, or FailedPrecondition if b is no longer retained; a fresh watch yields
// the current state (single resource) / bootstrap marker, then live events.
type scriptedServer struct {
	v1alpha1.StateClient // unimplemented methods panic if called

	log         []*v1alpha1.Event // log[i] has bookmark {byte(i+1)}; {0} is the position before the first event
	oldestValid int               // bookmarks of positions < oldestValid are expired
	down        int               // the next `down` Watch attempts fail
	cur         *stream
	attempts    int
	requests    []*v1alpha1.WatchOptions // options of every Watch request (copies)
}

type stream struct {
	grpc.ClientStream
	msgs      chan *v1alpha1.WatchResponse
	broken    chan struct{}
	failFirst error
}

func (s *stream) Recv() (*v1alpha1.WatchResponse, error) {
	if s.failFirst != nil {
		err := s.failFirst
		s.failFirst = nil
		return nil, err
	}
	select {
	case m := <-s.msgs:
		return m, nil
	case <-s.broken:
		return nil, status.Error(codes.Unavailable, "transport is closing")
	}
}

func mkEvent(i int) *v1alpha1.Event {
	return &v1alpha1.Event{
		EventType: v1alpha1.EventType_UPDATED,
		Bookmark:  []byte{byte(i + 1)},
		Resource: &v1alpha1.Resource{
			Metadata: &v1alpha1.Metadata{Namespace: tres.NS, Type: tres.TypeA, Id: "r", Version: "7", Phase: "running", Owner: "o"},
			Spec:     &v1alpha1.Spec{ProtoSpec: []byte{byte(i), 'e'}},
		},
	}
}

func (s *scriptedServer) Watch(ctx context.Context, req *v1alpha1.WatchRequest, _ ...grpc.CallOption) (grpc.ServerStreamingClient[v1alpha1.WatchResponse], error) {
	s.attempts++
	o := *req.Options
	s.requests = append(s.requests, &o)
	if s.down > 0 {
		s.down--
		return nil, status.Error(codes.Unavailable, "connection refused")
	}
	st := &stream{msgs: make(chan *v1alpha1.WatchResponse, 32), broken: make(chan struct{})}
	s.cur = st
	from := len(s.log)
	if b := req.Options.StartFromBookmark; b != nil {
		p := int(b[0]) - 1
		if p < s.oldestValid {
			st.failFirst = status.Error(codes.FailedPrecondition, "invalid watch bookmark")
			return st, nil
		}
		from = p + 1
	}
	st.msgs <- &v1alpha1.WatchResponse{} // "watch is ready"
	if req.Options.StartFromBookmark == nil {
		if req.Id != nil {
			// single-resource watch starts with the current state, which carries no bookmark
			st.msgs <- &v1alpha1.WatchResponse{Event: []*v1alpha1.Event{{EventType: v1alpha1.EventType_CREATED, Resource: mkEvent(100).Resource}}}
		} else if req.Options.BootstrapContents {
			st.msgs <- &v1alpha1.WatchResponse{Event: []*v1alpha1.Event{{EventType: v1alpha1.EventType_BOOTSTRAPPED, Bookmark: []byte{byte(len(s.log))}, Resource: mkEvent(101).Resource}}}
		}
	}
	for i := from; i < len(s.log); i++ {
		st.msgs <- &v1alpha1.WatchResponse{Event: []*v1alpha1.Event{s.log[i]}}
	}
	return st, nil
}

func (s *scriptedServer) appendEvent() {
	e := mkEvent(len(s.log))
	s.log = append(s.log, e)
	if s.cur != nil {
		select {
		case <-s.cur.broken:
		default:
			s.cur.msgs <- &v1alpha1.WatchResponse{Event: []*v1alpha1.Event{e}}
		}
	}
}

func (s *scriptedServer) breakStream() {
	if s.cur != nil {
		select {
		case <-s.cur.broken:
		default:
			close(s.cur.broken)
		}
	}
}

// H_WatchRetry: the real client watch adapter over a stream that fails at arbitrary points.
func H_WatchRetry() {
	steps := 4
	if verif.Tier() == "thorough" {
		steps = 6
	}
	tres.RegisterProto()
	ctx, cancel := context.WithCancel(context.Background())
	defer cancel()
	srv := &scriptedServer{}
	// some history before the watch starts
	for i, n := 0, verif.Choose("history", 3); i < n; i++ {
		srv.appendEvent()
	}
	ad := state.WrapCore(client.NewAdapter(srv))
	kindOf := verif.Choose("watchKind", 3)
	single := make(chan state.Event, 64)
	agg := make(chan []state.Event, 64)
	var err error
	kindMD := resource.NewMetadata(tres.NS, tres.TypeA, "", resource.VersionUndefined)
	switch kindOf {
	case 0:
		err = ad.Watch(ctx, resource.NewMetadata(tres.NS, tres.TypeA, "r", resource.VersionUndefined), single)
	case 1:
		err = ad.WatchKind(ctx, kindMD, single, state.WithBootstrapContents(true))
	case 2:
		err = ad.WatchKindAggregated(ctx, kindMD, agg, state.WithBootstrapContents(true))
	}
	verif.Assert(err == nil, "watch established")
	start := len(srv.log) // the first live event the subscriber must see
	faults := 0
	for k := 0; k < steps; k++ {
		verif.Quiesce()
		step := verif.Int("step") // decided by the solver where the script branches on it
		verif.Assume(verif.And(step >= 0, step <= 3))
		switch step {
		case 0:
			srv.appendEvent()
		case 1:
			if faults < 2 {
				faults++
				srv.breakStream()
				verif.Cover("stream broken")
			}
		case 2:
			if faults < 2 {
				faults++
				refusals := verif.Int("refusals")
				verif.Assume(verif.And(refusals >= 1, refusals <= 2))
				srv.down = refusals
				srv.breakStream()
				verif.Cover("server down")
			}
		case 3:
			srv.oldestValid = len(srv.log) // everything seen so far falls out of the retained history
			verif.Cover("history expired")
		}
	}
	srv.down = 0
	time.Sleep(10 * time.Minute) // let every backoff elapse (virtual time)
	verif.Quiesce()
	// collect what the subscriber received
	var got []state.Event
	for len(single) > 0 {
		got = append(got, <-single)
	}
	for len(agg) > 0 {
		got = append(got, <-agg...)
	}
	next := start
	initial, boots, errored := 0, 0, false
	sawBookmark := false
	for i, ev := range got {
		verif.Assert(!errored, "nothing follows a terminal Errored event")
		switch ev.Type {
		case state.Errored:
			errored = true
			_ = i
		case state.Bootstrapped:
			boots++
			sawBookmark = true
		case state.Created:
			initial++
		case state.Updated:
			verif.Assert(ev.Bookmark != nil && int(ev.Bookmark[0])-1 == next, "events arrive in log order without gap or duplicate")
			next++
			sawBookmark = true
		}
	}
	verif.Assert(boots <= 1 && initial <= 1, "bootstrap contents / initial state are never delivered twice")
	if errored {
		verif.Cover("terminated with Errored")
		verif.Assert(faults > 0, "a watch is only errored after a transport failure")
		_ = sawBookmark
	} else {
		verif.Cover("continued transparently")
		verif.Assert(next == len(srv.log), "a watch that is not errored has delivered every event of the server log (it never silently stops or skips)")
	}
	// on re-establishment the request resumes from the last received bookmark only
	for _, o := range srv.requests[1:] {
		verif.Assert(!o.BootstrapContents && !o.BootstrapBookmark && o.TailEvents == 0 && o.StartFromBookmark != nil, "a retried watch request resumes from a bookmark and never asks for bootstrap again")
	}
	if len(srv.requests) > 1 {
		verif.Cover("watch re-established")
	}
}
