package c13

import (
	"context"
	"time"

	"github.com/cosi-project/runtime/pkg/resource"
	"github.com/cosi-project/runtime/pkg/state"
	"github.com/cosi-project/runtime/pkg/state/impl/inmem"
	"github.com/cosi-project/runtime/pkg/state/impl/namespaced"
	"github.com/cosi-project/runtime/pkg/state/protobuf/client"
	"github.com/cosi-project/runtime/zzverif/c11"
	"github.com/cosi-project/runtime/zzverif/tres"
	"github.com/cosi-project/runtime/zzverif/verif"
)

var e2eIDs = []string{"a", ""} // the empty string is an ordinary resource id

type rv struct {
	version uint64
	phase   resource.Phase
	n       int64
}

func valOf(r resource.Resource) rv {
	return rv{r.Metadata().Version().Value(), r.Metadata().Phase(), tres.SpecOf(r).N}
}

func e2eWrite(ctx context.Context, st state.State) {
	w := verif.Choose("write", 6)
	id := e2eIDs[w%2]
	pa := resource.NewMetadata(tres.NS, tres.TypeA, id, resource.VersionUndefined)
	switch w / 2 {
	case 0:
		if err := st.Create(ctx, tres.NewA(tres.NS, id, "v")); err != nil {
			st.Destroy(ctx, pa) //nolint:errcheck
		}
	case 1:
		if r, err := st.Get(ctx, pa); err == nil {
			r.(*tres.A).TypedSpec().N++
			st.Update(ctx, r, state.WithExpectedPhaseAny()) //nolint:errcheck
		}
	case 2:
		st.Teardown(ctx, pa) //nolint:errcheck
	}
}

// H_RemoteWatchE2E: the real client watch adapter over the real server handler over the real in-memory
// store (transport = synchronous pipe, no wire format), with writes on the backing store and transport
// failures at arbitrary points: what the subscriber receives replays to the store's contents, every
// event is consistent with the replica built so far (no gap, duplicate, reordering, no second
// bootstrap), and the stream ends with Errored only where the property allows it.
func H_RemoteWatchE2E() {
	tres.RegisterProto()
	ctx, cancel := context.WithCancel(context.Background())
	defer cancel()
	backend := namespaced.NewState(inmem.Build)
	direct := state.WrapCore(backend)
	var copts []client.AdapterOption
	// the watch is optionally started from a bookmark the caller obtained earlier; that variant uses the
	// empty pre-state and retries enabled
	steps, slim := 2, false
	if verif.Tier() == "thorough" && verif.Choose("moreSchedules", 2) == 1 {
		// thorough = the quick exploration (<=2 steps, delay bound 0) + (<=1 step under delay bound 1, from
		// one pre-state, retries enabled, not started from a bookmark)
		steps, slim = 1, true
	} else {
		verif.SetPreemptions(0)
	}
	fromBookmark := !slim && verif.Choose("fromBookmark", 2) == 1
	noRetry := !fromBookmark && !slim && verif.Choose("retriesDisabled", 2) == 1
	if noRetry {
		copts = append(copts, client.WithDisableWatchRetry())
	}
	remoteCore, tr := c11.NewRemoteWithWatch(backend, copts...)
	remote := state.WrapCore(remoteCore)
	for _, id := range e2eIDs {
		if slim && id == e2eIDs[0] || !slim && !fromBookmark && verif.Choose("pre", 2) == 1 {
			verif.Assert(direct.Create(ctx, tres.NewA(tres.NS, id, "v")) == nil, "pre-state")
		}
	}
	kind := resource.NewMetadata(tres.NS, tres.TypeA, "", resource.VersionUndefined)
	snapshot := func() map[string]rv {
		m := map[string]rv{}
		l, err := direct.List(ctx, kind)
		verif.Assert(err == nil, "list")
		for _, r := range l.Items {
			m[r.Metadata().ID()] = valOf(r)
		}
		return m
	}
	watched := func(string) bool { return true }
	replica := map[string]rv{}
	mode := verif.Choose("mode", 3)
	bootstrap := mode != 0 && !fromBookmark && verif.Choose("bootstrap", 2) == 1
	var bookmark []byte
	if fromBookmark {
		dch := make(chan state.Event, 16)
		verif.Assert(direct.WatchKind(ctx, kind, dch) == nil, "direct watch")
		pa := resource.NewMetadata(tres.NS, tres.TypeA, "a", resource.VersionUndefined)
		if r, err := direct.Get(ctx, pa); err == nil {
			r.(*tres.A).TypedSpec().N++
			verif.Assert(direct.Update(ctx, r) == nil, "bookmarked write")
		} else {
			verif.Assert(direct.Create(ctx, tres.NewA(tres.NS, "a", "v")) == nil, "bookmarked write")
		}
		bookmark = (<-dch).Bookmark
		verif.Assert(bookmark != nil, "events carry bookmarks")
		verif.Cover("started from a bookmark")
	}
	initial := snapshot() // what the subscriber knows: the state right after the bookmarked event
	if bookmark != nil && verif.Choose("writeBeforeResume", 2) == 1 {
		e2eWrite(ctx, direct) // happens after the bookmark and before the watch: must be delivered
	}
	single := make(chan state.Event)
	batches := make(chan []state.Event)
	switch mode {
	case 0:
		wid := e2eIDs[verif.Choose("watchedID", 2)]
		watched = func(id string) bool { return id == wid }
		var wopts []state.WatchOption
		if bookmark != nil {
			wopts = append(wopts, state.WithStartFromBookmark(bookmark))
		}
		verif.Assert(remote.Watch(ctx, resource.NewMetadata(tres.NS, tres.TypeA, wid, resource.VersionUndefined), single, wopts...) == nil, "remote watch established")
	case 1, 2:
		var opts []state.WatchKindOption
		if bootstrap {
			opts = append(opts, state.WithBootstrapContents(true))
		}
		if bookmark != nil {
			opts = append(opts, state.WithKindStartFromBookmark(bookmark))
		}
		if mode == 1 {
			verif.Assert(remote.WatchKind(ctx, kind, single, opts...) == nil, "remote watch established")
		} else {
			verif.Assert(remote.WatchKindAggregated(ctx, kind, batches, opts...) == nil, "remote watch established")
		}
	}
	// subscriber state
	errored, bootstrapped, initialSeen, sawBookmark := false, 0, 0, false
	apply := func(ev state.Event) {
		verif.Assert(!errored, "nothing follows a terminal Errored event")
		if ev.Bookmark != nil {
			sawBookmark = true
		}
		switch ev.Type {
		case state.Errored:
			errored = true
			return
		case state.Bootstrapped:
			bootstrapped++
			verif.Assert(bootstrap && bootstrapped == 1, "bootstrap completion is delivered once, and only when asked for")
			verif.Assert(len(replica) == len(initial), "bootstrap delivers exactly the contents at the start of the watch")
			for id, v := range initial {
				verif.Assert(replica[id] == v, "bootstrap delivers exactly the contents at the start of the watch")
			}
			return
		case state.Noop:
			return
		}
		verif.Assert(ev.Resource != nil && ev.Resource.Metadata().Type() == tres.TypeA && watched(ev.Resource.Metadata().ID()), "only changes of the watched kind/resource are delivered")
		id := ev.Resource.Metadata().ID()
		prev, had := replica[id]
		if mode == 0 && initialSeen == 0 {
			// a single-resource watch starts with the current state
			initialSeen++
			cur, exists := initial[id]
			if exists {
				verif.Assert(ev.Type == state.Created && valOf(ev.Resource) == cur, "the first event of a single-resource watch is the current state")
				replica[id] = cur
			} else {
				verif.Assert(ev.Type == state.Destroyed, "the first event of a single-resource watch on an absent resource says so")
			}
			return
		}
		switch ev.Type {
		case state.Created:
			verif.Assert(!had, "Created only for a resource absent from the replica (no duplicate, no second bootstrap)")
			replica[id] = valOf(ev.Resource)
		case state.Updated:
			verif.Assert(had && ev.Old != nil && valOf(ev.Old) == prev, "an Updated event's old value is the previously delivered value (no gap)")
			verif.Assert(ev.Resource.Metadata().Version().Value() == prev.version+1, "an Updated event's new version is exactly one higher")
			replica[id] = valOf(ev.Resource)
		case state.Destroyed:
			verif.Assert(had && valOf(ev.Resource) == prev, "Destroyed is delivered for the value the replica holds")
			delete(replica, id)
		}
	}
	if mode != 0 && !bootstrap {
		replica = initial
	}
	if mode == 0 && bookmark != nil {
		// resumed from a bookmark: no initial-state event, the subscriber continues from what it knew
		initialSeen = 1
		for id, v := range initial {
			if watched(id) {
				replica[id] = v
			}
		}
	}
	drain := func() {
		for !errored {
			verif.Quiesce()
			select {
			case ev := <-single:
				apply(ev)
				continue
			case b := <-batches:
				verif.Assert(len(b) > 0, "aggregated batches are never empty")
				for _, ev := range b {
					apply(ev)
				}
				continue
			default:
			}
			return
		}
	}
	breaks, breaksBeforeBookmark := 0, 0
	for k, n := 0, verif.Choose("steps", steps+1); k < n; k++ {
		if verif.Choose("readFirst", 2) == 1 {
			drain()
		}
		switch verif.Choose("step", 3) {
		case 0:
			e2eWrite(ctx, direct)
		case 1, 2:
			if breaks < 2 {
				breaks++
				if !sawBookmark {
					breaksBeforeBookmark++
				}
				if verif.Choose("refusals", 2) == 1 {
					tr.Down = 1
					verif.Cover("server down")
				}
				tr.Break()
				verif.Cover("stream broken")
			}
		}
	}
	time.Sleep(10 * time.Minute) // every backoff elapses (virtual time)
	drain()
	time.Sleep(10 * time.Minute)
	drain()
	if errored {
		verif.Cover("errored")
		verif.Assert(breaks > 0, "a watch over a healthy transport is never errored")
		verif.Assert(noRetry || breaksBeforeBookmark > 0, "with retries enabled and the bookmark still valid a failed stream is resumed, not errored")
	} else {
		final := snapshot()
		for _, id := range e2eIDs {
			if watched(id) {
				f, hf := final[id]
				r, hr := replica[id]
				verif.Assert(hf == hr && f == r, "replaying the delivered events reproduces the store's contents: nothing lost across transport failures")
			}
		}
		if mode == 0 {
			verif.Assert(initialSeen == 1, "the initial state of a single-resource watch is delivered")
		}
		if bootstrap {
			verif.Assert(bootstrapped == 1, "bootstrap completes")
		}
		if breaks > 0 {
			verif.Cover("resumed transparently")
		}
		verif.Cover("complete")
	}
}

// H_RemoteBadBookmark: a watch started from a malformed or foreign bookmark is refused with an
// invalid-bookmark error through the remote handle exactly as on the wrapped state.
func H_RemoteBadBookmark() {
	tres.RegisterProto()
	ctx, cancel := context.WithCancel(context.Background())
	defer cancel()
	backend := namespaced.NewState(inmem.Build)
	direct := state.WrapCore(backend)
	remoteCore, _ := c11.NewRemoteWithWatch(backend)
	remote := state.WrapCore(remoteCore)
	verif.Assert(direct.Create(ctx, tres.NewA(tres.NS, "a", "v")) == nil, "pre-state")
	bm := [][]byte{[]byte("bogus"), make([]byte, 16)}[verif.Choose("bookmark", 2)] // (an empty bookmark is absent on the wire: outside)
	kind := resource.NewMetadata(tres.NS, tres.TypeA, "", resource.VersionUndefined)
	var derr, rerr error
	switch verif.Choose("mode", 3) {
	case 0:
		p := resource.NewMetadata(tres.NS, tres.TypeA, "a", resource.VersionUndefined)
		derr = direct.Watch(ctx, p, make(chan state.Event), state.WithStartFromBookmark(bm))
		rerr = remote.Watch(ctx, p, make(chan state.Event), state.WithStartFromBookmark(bm))
	case 1:
		derr = direct.WatchKind(ctx, kind, make(chan state.Event), state.WithKindStartFromBookmark(bm))
		rerr = remote.WatchKind(ctx, kind, make(chan state.Event), state.WithKindStartFromBookmark(bm))
	case 2:
		derr = direct.WatchKindAggregated(ctx, kind, make(chan []state.Event), state.WithKindStartFromBookmark(bm))
		rerr = remote.WatchKindAggregated(ctx, kind, make(chan []state.Event), state.WithKindStartFromBookmark(bm))
	}
	verif.Assert(derr != nil && state.IsInvalidWatchBookmarkError(derr), "the wrapped state rejects the bookmark as invalid")
	verif.Assert(rerr != nil && state.IsInvalidWatchBookmarkError(rerr), "the remote handle reports the same invalid-bookmark error")
	verif.Cover("bad bookmark rejected")
}

// H_RemoteTail: a tail-events request means the same through the remote handle: a watch (on the kind,
// aggregated or not, or on one resource) with a tail of 1..3 delivers the same first events as on the
// wrapped state.
func H_RemoteTail() {
	tres.RegisterProto()
	ctx, cancel := context.WithCancel(context.Background())
	defer cancel()
	backend := namespaced.NewState(inmem.Build)
	direct := state.WrapCore(backend)
	remoteCore, _ := c11.NewRemoteWithWatch(backend)
	remote := state.WrapCore(remoteCore)
	verif.Assert(direct.Create(ctx, tres.NewA(tres.NS, "a", "v")) == nil, "history")
	for i := 0; i < 2; i++ {
		r, err := direct.Get(ctx, resource.NewMetadata(tres.NS, tres.TypeA, "a", resource.VersionUndefined))
		verif.Assert(err == nil, "history")
		r.(*tres.A).TypedSpec().N++
		verif.Assert(direct.Update(ctx, r) == nil, "history")
	}
	n := 1 + verif.Choose("tail", 3)
	kind := resource.NewMetadata(tres.NS, tres.TypeA, "", resource.VersionUndefined)
	p := resource.NewMetadata(tres.NS, tres.TypeA, "a", resource.VersionUndefined)
	mode := verif.Choose("mode", 3)
	collect := func(st state.State) []uint64 {
		var out []uint64
		single := make(chan state.Event, 8)
		agg := make(chan []state.Event, 8)
		switch mode {
		case 0:
			verif.Assert(st.Watch(ctx, p, single, state.WithTailEvents(n)) == nil, "watch with tail")
		case 1:
			verif.Assert(st.WatchKind(ctx, kind, single, state.WithKindTailEvents(n)) == nil, "kind watch with tail")
		case 2:
			verif.Assert(st.WatchKindAggregated(ctx, kind, agg, state.WithKindTailEvents(n)) == nil, "aggregated kind watch with tail")
		}
		verif.Quiesce()
		for len(single) > 0 {
			out = append(out, (<-single).Resource.Metadata().Version().Value())
		}
		for len(agg) > 0 {
			for _, ev := range <-agg {
				out = append(out, ev.Resource.Metadata().Version().Value())
			}
		}
		return out
	}
	want := collect(direct)
	got := collect(remote)
	verif.Assert(len(want) == n && len(got) == len(want), "a tail of n over a history of 3 delivers n events, remotely as directly")
	for i := range want {
		verif.Assert(got[i] == want[i], "the remote tail delivers the same events in the same order")
	}
	verif.Cover("tails compared")
}
