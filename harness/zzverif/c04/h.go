package c04

import (
	"context"
	"errors"

	"github.com/cosi-project/runtime/pkg/resource"
	"github.com/cosi-project/runtime/pkg/state"
	"github.com/cosi-project/runtime/pkg/state/impl/inmem"
	"github.com/cosi-project/runtime/pkg/state/impl/namespaced"
	"github.com/cosi-project/runtime/zzverif/tres"
	"github.com/cosi-project/runtime/zzverif/verif"
)

const id = "r"

var errMutator = errors.New("mutator failed")

func ptr() resource.Metadata {
	return resource.NewMetadata(tres.NS, tres.TypeA, id, resource.VersionUndefined)
}

// environment: one interfering operation by another party, chosen nondeterministically
func interfere(ctx context.Context, st state.State, envOwner string) {
	switch verif.Choose("interference", 6) {
	case 0: // plain update by the resource's owner
		if r, err := st.Get(ctx, ptr()); err == nil {
			r.(*tres.A).TypedSpec().N++
			st.Update(ctx, r, state.WithUpdateOwner(r.Metadata().Owner()), state.WithExpectedPhaseAny()) //nolint:errcheck
		}
	case 1: // teardown by the owner
		if r, err := st.Get(ctx, ptr()); err == nil {
			st.Teardown(ctx, ptr(), state.WithTeardownOwner(r.Metadata().Owner())) //nolint:errcheck
		}
	case 2: // destroy by the owner (fails if finalizers are pending)
		if r, err := st.Get(ctx, ptr()); err == nil {
			st.Destroy(ctx, ptr(), state.WithDestroyOwner(r.Metadata().Owner())) //nolint:errcheck
		}
	case 3: // (re-)create under the environment's owner
		st.Create(ctx, tres.NewA(tres.NS, id, "env"), state.WithCreateOwner(envOwner)) //nolint:errcheck
	case 4:
		st.AddFinalizer(ctx, ptr(), "h") //nolint:errcheck
	case 5:
		st.RemoveFinalizer(ctx, ptr(), "f") //nolint:errcheck
	}
}

// H_HelperAtomic: one read-modify-write helper call with <=2 (quick) / <=3
// (thorough) interfering writes injected at its store-call boundaries.
func H_HelperAtomic() {
	ctx := context.Background()
	maxInterference := 2
	if verif.Tier() == "thorough" {
		maxInterference = 3
	}
	core := &tres.Interpose{Inner: namespaced.NewState(inmem.Build)}
	st := state.WrapCore(core)
	storedOwner := verif.Atom("storedOwner")
	envOwner := verif.Atom("envOwner")
	// pre-state
	if verif.Choose("present", 2) == 1 {
		verif.Assert(st.Create(ctx, tres.NewA(tres.NS, id, "old"), state.WithCreateOwner(storedOwner)) == nil, "pre-state create")
		if verif.Choose("finalizer", 2) == 1 {
			verif.Assert(st.AddFinalizer(ctx, ptr(), "f") == nil, "pre-state finalizer")
		}
		if verif.Choose("tearingDown", 2) == 1 {
			_, err := st.Teardown(ctx, ptr(), state.WithTeardownOwner(storedOwner))
			verif.Assert(err == nil, "pre-state teardown")
		}
	}
	core.Log, core.CallerReads, core.CallerCalls, core.CallerUpdates, core.EnvWrites = nil, nil, 0, 0, 0
	budget := maxInterference
	core.Env = func(op string, p resource.Pointer) {
		if budget > 0 && verif.Choose("interfere here", 2) == 1 {
			budget--
			interfere(ctx, st, envOwner)
		}
	}

	callerOwner := verif.Atom("callerOwner")
	var expPhase *resource.Phase // nil = any
	running, tearing := resource.PhaseRunning, resource.PhaseTearingDown
	mutKind := verif.Choose("mutator", 4)
	mutate := func(r resource.Resource) error {
		switch mutKind {
		case 0:
			r.Metadata().Labels().Set("l", "v")
		case 1:
			r.(*tres.A).TypedSpec().S = "new"
		case 2: // no-op
		case 3:
			return errMutator
		}
		return nil
	}
	applied := func(before, after resource.Resource) bool {
		switch mutKind {
		case 0:
			v, ok := after.Metadata().Labels().Get("l")
			return ok && v == "v" && tres.SpecOf(after) == tres.SpecOf(before)
		case 1:
			return tres.SpecOf(after).S == "new" && tres.SpecOf(after).N == tres.SpecOf(before).N && after.Metadata().Labels().Equal(*before.Metadata().Labels())
		}
		return true
	}
	var res resource.Resource
	var err error
	ready := false
	checkOwner := true
	op := verif.Choose("helper", 5)
	switch op {
	case 0:
		verif.Case("UpdateWithConflicts")
		opts := []state.UpdateOption{state.WithUpdateOwner(callerOwner)}
		switch verif.Choose("expectedPhase", 3) {
		case 0:
			expPhase = &running // the documented default
		case 1:
			opts = append(opts, state.WithExpectedPhaseAny())
		case 2:
			opts = append(opts, state.WithExpectedPhase(tearing))
			expPhase = &tearing
		}
		res, err = st.UpdateWithConflicts(ctx, ptr(), mutate, opts...)
	case 1:
		verif.Case("Modify")
		expPhase = &running
		res, err = st.ModifyWithResult(ctx, tres.NewA(tres.NS, id, ""), mutate, state.WithUpdateOwner(callerOwner))
	case 2:
		verif.Case("AddFinalizer")
		mutKind = 4
		checkOwner = false
		err = st.AddFinalizer(ctx, ptr(), "g")
	case 3:
		verif.Case("RemoveFinalizer")
		mutKind = 5
		checkOwner = false
		err = st.RemoveFinalizer(ctx, ptr(), "f")
	case 4:
		verif.Case("Teardown")
		mutKind = 6
		ready, err = st.Teardown(ctx, ptr(), state.WithTeardownOwner(callerOwner))
	}
	core.Env = nil
	ws := core.CallerWrites()
	verif.Assert(core.CallerUpdates <= core.EnvWrites+1, "at most one retry per interfering write (conflicts are not retried forever)")
	if err != nil {
		verif.Cover("helper failed")
		verif.Assert(len(ws) == 0, "a helper that reports an error has had no effect")
		return
	}
	verif.Cover("helper succeeded")
	verif.Assert(len(ws) <= 1, "a successful helper applies its mutation at most once")
	if len(ws) == 0 {
		verif.Cover("no-op success")
		// success without a write: the value the call was based on must have satisfied the phase expectation
		last := core.CallerReads[len(core.CallerReads)-1]
		verif.Assert(last != nil, "no-op success is based on an existing resource")
		if expPhase != nil && (op == 0 || op == 1) {
			verif.Assert(last.Metadata().Phase() == *expPhase, "no-op success only on a resource in the expected phase (a phase conflict is never turned into success)")
		}
		switch mutKind {
		case 4:
			verif.Assert(last.Metadata().Finalizers().Has("g"), "AddFinalizer without write: finalizer already present")
		case 5:
			verif.Assert(!last.Metadata().Finalizers().Has("f"), "RemoveFinalizer without write: finalizer already absent")
		case 6:
			verif.Assert(last.Metadata().Phase() == resource.PhaseTearingDown, "Teardown without write: already tearing down")
			verif.Assert(ready == last.Metadata().Finalizers().Empty(), "the result of Teardown reflects the value it was based on (finalizers of the tearing-down resource it found)")
		case 0, 1:
			verif.Assert(applied(last, last), "no write only if the mutation changes nothing")
		}
		return
	}
	w := ws[0]
	if w.Kind == "create" {
		verif.Cover("modify created")
		verif.Assert(op == 1 && w.Before == nil, "only Modify creates, and only when the resource is absent (never overwrites)")
		verif.Assert(w.After.Metadata().Owner() == callerOwner, "created under the requested owner")
		verif.Assert(res != nil && res.Metadata().Version().Equal(w.After.Metadata().Version()), "returned object reflects the created one")
		return
	}
	verif.Assert(w.Kind == "update" && w.Before != nil && w.After != nil, "the effect of a helper is one update of the then-current value")
	verif.Assert(w.After.Metadata().Version().Equal(w.Before.Metadata().Version().Next()), "version bumped exactly once")
	if checkOwner {
		verif.Assert(w.Before.Metadata().Owner() == callerOwner, "owner conflict is never retried into success")
	}
	if expPhase != nil && (op == 0 || op == 1) {
		verif.Assert(w.Before.Metadata().Phase() == *expPhase, "phase conflict is never retried into success")
	}
	switch mutKind {
	case 0, 1:
		verif.Assert(applied(w.Before, w.After), "the committed value is the mutator applied to the then-current value")
		verif.Assert(res != nil && res.Metadata().Version().Equal(w.After.Metadata().Version()) && tres.SpecOf(res) == tres.SpecOf(w.After), "returned object reflects the committed value")
	case 4:
		verif.Assert(w.After.Metadata().Finalizers().Has("g") && w.After.Metadata().Finalizers().Has("f") == w.Before.Metadata().Finalizers().Has("f"), "finalizer added on top of the then-current set")
	case 5:
		verif.Assert(!w.After.Metadata().Finalizers().Has("f") && w.After.Metadata().Finalizers().Has("h") == w.Before.Metadata().Finalizers().Has("h"), "finalizer removed from the then-current set")
	case 6:
		verif.Assert(w.After.Metadata().Phase() == resource.PhaseTearingDown && tres.SpecOf(w.After) == tres.SpecOf(w.Before), "teardown marks the then-current value")
		verif.Assert(ready == w.After.Metadata().Finalizers().Empty(), "the result of Teardown reflects the committed value (ready iff it carries no finalizer)")
	}
	if core.EnvWrites > 0 && core.CallerUpdates > 1 {
		verif.Cover("retried after interference")
	}
}
