// Package verif is the harness-facing API of gosmt.
//
// Under the symbolic engine every function here is intercepted (the bodies
// below are not executed).  Compiled natively, the bodies replay one recorded
// assignment (file named by $GOSMT_REPLAY or set by RunReplays), so that a
// solver model can be confirmed against the real build.
package verif

import (
	"encoding/json"
	"fmt"
	"os"
	"runtime/debug"
	"strconv"
	"strings"
	"time"
)

type Value struct {
	Name  string `json:"name"`
	Kind  string `json:"kind"`
	Value string `json:"value"`
}

type Replay struct {
	Harness string  `json:"harness"`
	Tier    string  `json:"tier"`
	Inputs  []Value `json:"inputs"`
}

type Result struct {
	Outcome string   `json:"outcome"` // ok | assert | panic | assume | mismatch
	Label   string   `json:"label"`
	Case    string   `json:"case"`
	Msg     string   `json:"msg"`
	Stack   string   `json:"stack,omitempty"`
	Obs     []Value  `json:"observations"`
	Covers  []string `json:"covers"`
}

type assertFailure struct{ label string }
type assumeFailure struct{}
type mismatch struct{ msg string }

var cur struct {
	rp  *Replay
	idx int
	res *Result
}

func next(name, kind string) string {
	if cur.rp == nil {
		panic(mismatch{"no replay loaded"})
	}
	if cur.idx >= len(cur.rp.Inputs) {
		panic(mismatch{fmt.Sprintf("replay exhausted at %s/%s", name, kind)})
	}
	v := cur.rp.Inputs[cur.idx]
	cur.idx++
	if v.Name != name || v.Kind != kind {
		panic(mismatch{fmt.Sprintf("replay wants %s/%s, harness asks %s/%s", v.Name, v.Kind, name, kind)})
	}
	return v.Value
}

func geti(name, kind string) int64 {
	n, err := strconv.ParseInt(next(name, kind), 10, 64)
	if err != nil {
		panic(mismatch{err.Error()})
	}
	return n
}

func getu(name, kind string) uint64 {
	n, err := strconv.ParseUint(next(name, kind), 10, 64)
	if err != nil {
		panic(mismatch{err.Error()})
	}
	return n
}

func Bool(name string) bool     { return next(name, "bool") == "true" }
func Int(name string) int       { return int(geti(name, "int64")) }
func Int64(name string) int64   { return geti(name, "int64") }
func Int32(name string) int32   { return int32(geti(name, "int32")) }
func Int16(name string) int16   { return int16(geti(name, "int16")) }
func Int8(name string) int8     { return int8(geti(name, "int8")) }
func Uint64(name string) uint64 { return getu(name, "uint64") }
func Uint32(name string) uint32 { return uint32(getu(name, "uint32")) }
func Uint16(name string) uint16 { return uint16(getu(name, "uint16")) }
func Uint8(name string) uint8   { return uint8(getu(name, "uint8")) }
func Byte(name string) byte     { return uint8(getu(name, "uint8")) }

// Atom is an arbitrary string on which the code under test only uses
// comparison, copying and map keying.
func Atom(name string) string { return next(name, "atom") }

// Choose is a nondeterministic choice in [0,n).
func Choose(name string, n int) int {
	c, _ := strconv.Atoi(next(name, "choose"))
	return c
}

// Bytes is a byte slice of length n with arbitrary contents.
func Bytes(name string, n int) []byte {
	b := make([]byte, n)
	for i := range b {
		b[i] = uint8(getu(fmt.Sprintf("%s[%d]", name, i), "uint8"))
	}
	return b
}

// String is a string of length n with arbitrary bytes.
func String(name string, n int) string { return string(Bytes(name, n)) }

func Assume(c bool) {
	if !c {
		panic(assumeFailure{})
	}
}

func Assert(c bool, label string) {
	if !c {
		panic(assertFailure{label})
	}
}

func Fail(label string) { panic(assertFailure{label}) }

func Cover(label string) {
	if cur.res != nil {
		for _, c := range cur.res.Covers {
			if c == label {
				return
			}
		}
		cur.res.Covers = append(cur.res.Covers, label)
	}
}

func Case(label string) {
	if cur.res != nil {
		cur.res.Case = label
	}
}

func Observe(label string, v any) {
	if cur.res == nil {
		return
	}
	o := Value{Name: label}
	switch x := v.(type) {
	case bool:
		o.Kind, o.Value = "bool", strconv.FormatBool(x)
	case string:
		o.Kind, o.Value = "atom", x
	case nil:
		o.Kind = "nil"
	case int:
		o.Kind, o.Value = "int", strconv.FormatInt(int64(x), 10)
	case int8:
		o.Kind, o.Value = "int", strconv.FormatInt(int64(x), 10)
	case int16:
		o.Kind, o.Value = "int", strconv.FormatInt(int64(x), 10)
	case int32:
		o.Kind, o.Value = "int", strconv.FormatInt(int64(x), 10)
	case int64:
		o.Kind, o.Value = "int", strconv.FormatInt(x, 10)
	case uint:
		o.Kind, o.Value = "int", strconv.FormatUint(uint64(x), 10)
	case uint8:
		o.Kind, o.Value = "int", strconv.FormatUint(uint64(x), 10)
	case uint16:
		o.Kind, o.Value = "int", strconv.FormatUint(uint64(x), 10)
	case uint32:
		o.Kind, o.Value = "int", strconv.FormatUint(uint64(x), 10)
	case uint64:
		o.Kind, o.Value = "int", strconv.FormatUint(x, 10)
	default:
		o.Kind, o.Value = "other", "?"
	}
	cur.res.Obs = append(cur.res.Obs, o)
}

// Atomic runs fn without scheduling points (engine); plain call natively.
func Atomic(fn func()) { fn() }

func Yield() {}

// Quiesce natively approximates "everything else ran until it blocked" by a short sleep.
func Quiesce()             { time.Sleep(3 * time.Millisecond) }
func SetUnwind(n int)      {}
func SetPreemptions(n int) {}

// Symbolic reports whether the harness runs under the symbolic engine.
func Symbolic() bool { return false }

func Tier() string {
	if cur.rp != nil && cur.rp.Tier != "" {
		return cur.rp.Tier
	}
	return "quick"
}

// ExpectPanic runs fn and reports whether it panicked.
func ExpectPanic(fn func()) (panicked bool) {
	defer func() {
		if r := recover(); r != nil {
			switch r.(type) {
			case assertFailure, assumeFailure, mismatch:
				panic(r)
			}
			panicked = true
		}
	}()
	fn()
	return false
}

func NumThreads() int { return 1 }
func Blocked() int    { return 0 }

// RunOne replays one file against fn and returns the result.
func RunOne(path string, fns map[string]func()) (res *Result) {
	res = &Result{Outcome: "ok"}
	data, err := os.ReadFile(path)
	if err != nil {
		res.Outcome, res.Msg = "mismatch", err.Error()
		return
	}
	rp := &Replay{}
	if err := json.Unmarshal(data, rp); err != nil {
		res.Outcome, res.Msg = "mismatch", err.Error()
		return
	}
	name := rp.Harness
	if k := strings.LastIndexByte(name, '.'); k >= 0 {
		name = name[k+1:]
	}
	fn := fns[name]
	if fn == nil {
		res.Outcome, res.Msg = "mismatch", "no harness "+name
		return
	}
	cur.rp, cur.idx, cur.res = rp, 0, res
	defer func() {
		cur.rp, cur.res = nil, nil
		if r := recover(); r != nil {
			switch x := r.(type) {
			case assertFailure:
				res.Outcome, res.Label = "assert", x.label
			case assumeFailure:
				res.Outcome = "assume"
			case mismatch:
				res.Outcome, res.Msg = "mismatch", x.msg
			default:
				res.Outcome, res.Label, res.Msg = "panic", "no-panic", fmt.Sprint(r)
				res.Stack = string(debug.Stack())
			}
		}
	}()
	fn()
	return
}

// RunReplays replays every file listed (one path per line) in $GOSMT_REPLAYS
// and writes <path>.out.json for each.
func RunReplays(fns map[string]func()) {
	list := os.Getenv("GOSMT_REPLAYS")
	if list == "" {
		return
	}
	data, err := os.ReadFile(list)
	if err != nil {
		fmt.Println("gosmt-replay: cannot read list:", err)
		os.Exit(3)
	}
	for _, p := range strings.Split(strings.TrimSpace(string(data)), "\n") {
		p = strings.TrimSpace(p)
		if p == "" {
			continue
		}
		res := RunOne(p, fns)
		out, _ := json.MarshalIndent(res, "", " ")
		os.WriteFile(p+".out.json", out, 0o644)
		fmt.Printf("REPLAY %s outcome=%s label=%q case=%q msg=%q\n", p, res.Outcome, res.Label, res.Case, res.Msg)
	}
}

// Non-forking boolean combinators: under the engine they build one solver
// term instead of branching (Go's && and || compile to branches).
func Or(c ...bool) bool {
	for _, x := range c {
		if x {
			return true
		}
	}
	return false
}

func And(c ...bool) bool {
	for _, x := range c {
		if !x {
			return false
		}
	}
	return true
}

func Not(c bool) bool        { return !c }
func Implies(a, b bool) bool { return !a || b }
func Iff(a, b bool) bool     { return a == b }
