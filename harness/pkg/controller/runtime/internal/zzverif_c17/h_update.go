package zzverif_c17

import (
	"context"

	"github.com/siderolabs/gen/optional"
	"go.uber.org/zap"
	"golang.org/x/time/rate"

	"github.com/cosi-project/runtime/pkg/controller"
	"github.com/cosi-project/runtime/pkg/controller/runtime/internal/adapter"
	"github.com/cosi-project/runtime/pkg/controller/runtime/internal/cache"
	"github.com/cosi-project/runtime/pkg/controller/runtime/internal/dependency"
	"github.com/cosi-project/runtime/pkg/controller/runtime/internal/rruntime"
	"github.com/cosi-project/runtime/pkg/controller/runtime/options"
	"github.com/cosi-project/runtime/pkg/resource"
	"github.com/cosi-project/runtime/pkg/state"
	"github.com/cosi-project/runtime/pkg/state/impl/inmem"
	"github.com/cosi-project/runtime/pkg/state/impl/namespaced"
	"github.com/cosi-project/runtime/zzverif/verif"
)

type probe struct {
	name    string
	inputs  []controller.Input
	outputs []controller.Output
}

func (p *probe) Name() string                 { return p.name }
func (p *probe) Inputs() []controller.Input   { return p.inputs }
func (p *probe) Outputs() []controller.Output { return p.outputs }
func (p *probe) Run(context.Context, controller.Runtime, *zap.Logger) error {
	return nil
}

// symInputs builds a list of n inputs with symbolic fields; kinds restricted to the plain-controller kinds.
func symInputs(n int, tag string) []controller.Input {
	var ins []controller.Input
	for i := 0; i < n; i++ {
		k := verif.Int("kind" + tag)
		verif.Assume(verif.And(k >= 0, k <= 1)) // weak or strong
		in := controller.Input{Namespace: "ns", Type: "T", Kind: k}
		if verif.Tier() == "thorough" {
			in.Type = verif.Atom("type" + tag)
		}
		if verif.Tier() != "thorough" || verif.Choose("hasID"+tag, 2) == 1 {
			in.ID = optional.Some(verif.Atom("id" + tag))
		}
		ins = append(ins, in)
	}
	return ins
}

func distinctKeys(ins []controller.Input) bool {
	ok := true
	for i := range ins {
		for j := 0; j < i; j++ {
			ok = verif.And(ok, verif.Not(verif.And(ins[i].Namespace == ins[j].Namespace, ins[i].Type == ins[j].Type, ins[i].ID == ins[j].ID)))
		}
	}
	return ok
}

func sameInput(a, b controller.Input) bool {
	return verif.And(a.Namespace == b.Namespace, a.Type == b.Type, a.ID == b.ID, a.Kind == b.Kind)
}

func contains(list []controller.Input, x controller.Input) bool {
	f := false
	for _, y := range list {
		f = verif.Or(f, sameInput(x, y))
	}
	return f
}

// H_UpdateInputs: a controller registered with an arbitrary valid input set
// replaces it by another arbitrary valid set: the dependency database, the
// adapter's access list and the notification lookup all equal the new set.
func H_UpdateInputs() {
	max := 2 // thorough: same sizes, but symbolic types and optional IDs (symInputs)
	ctx := context.Background()
	db, _ := dependency.NewDatabase()
	st := state.WrapCore(namespaced.NewState(inmem.Build))
	watches := 0
	n1 := verif.Choose("n1", max+1)
	s1 := symInputs(n1, "1")
	verif.Assume(distinctKeys(s1))
	ctrl := &probe{name: "ctrl", inputs: append([]controller.Input(nil), s1...), outputs: []controller.Output{{Type: "Out", Kind: controller.OutputExclusive}}}
	opts := options.DefaultOptions()
	opts.MetricsEnabled = false
	opts.ChangeRateLimit = rate.Inf
	ad, err := rruntime.NewAdapter(ctrl, adapter.Options{
		Logger: zap.NewNop(), State: st, Cache: cache.NewResourceCache(nil), DepDB: db, RuntimeOptions: opts,
		RegisterWatch: func(resource.Namespace, resource.Type) error { watches++; return nil },
	})
	verif.Assert(err == nil, "registration with distinct plain inputs is accepted")
	n2 := verif.Choose("n2", max+1)
	s2 := symInputs(n2, "2")
	verif.Assume(distinctKeys(s2))
	// (entries of the new set may coincide with old ones: all fields are symbolic)
	want := append([]controller.Input(nil), s2...)
	uerr := ad.UpdateInputs(s2)
	verif.Assert(uerr == nil, "a valid dynamic input update is accepted")
	got, _ := db.GetControllerInputs("ctrl")
	verif.Assert(len(got) == len(want), "database lists as many inputs as the new set")
	for _, x := range want {
		verif.Assert(contains(got, x), "every new input is in the database")
		verif.Assert(contains(ad.Inputs, x), "every new input is in the adapter's access list")
		if x.ID.IsPresent() {
			deps, derr := db.GetDependentControllers(x)
			verif.Assert(derr == nil && len(deps) >= 1, "a change of a declared input notifies the controller")
		}
	}
	verif.Assert(len(ad.Inputs) == len(want), "the adapter's access list has exactly the new inputs")
	// a dropped input is no longer readable (unless covered by another input)
	for _, old := range s1 {
		id := old.ID.ValueOr("some-id")
		covered := false
		for _, x := range want {
			covered = verif.Or(covered, verif.And(x.Namespace == old.Namespace, x.Type == old.Type, verif.Or(!x.ID.IsPresent(), x.ID.ValueOrZero() == id)))
		}
		if !covered && old.Type != "Out" {
			_, gerr := ad.Get(ctx, resource.NewMetadata(old.Namespace, old.Type, id, resource.VersionUndefined))
			verif.Assert(gerr != nil && !state.IsNotFoundError(gerr), "an input that is no longer declared cannot be read any more")
			verif.Cover("dropped input denied")
		}
	}
	if len(s1) > len(want) {
		verif.Cover("shrunk")
	}
	if len(want) > len(s1) {
		verif.Cover("grown")
	}
}
