package zzverif_c17

import (
	"github.com/siderolabs/gen/optional"

	"github.com/cosi-project/runtime/pkg/controller"
	"github.com/cosi-project/runtime/pkg/controller/runtime/internal/dependency"
	"github.com/cosi-project/runtime/zzverif/verif"
)

type mOut struct {
	ctrl, typ string
	kind      controller.OutputKind
}

type mIn struct {
	ctrl, ns, typ, id string
	hasID             bool
	kind              controller.InputKind
}

type model struct {
	outs []mOut
	ins  []mIn
}

// All oracle predicates are written with the non-forking combinators so that
// the only case splits are the ones the code under test makes.

func (m *model) outputAccepted(c, t string, k controller.OutputKind) bool {
	ok := true
	for _, o := range m.outs {
		conflict := verif.And(o.typ == t, verif.Or(o.kind == controller.OutputExclusive, k == controller.OutputExclusive, o.ctrl == c))
		ok = verif.And(ok, verif.Not(conflict))
	}
	return ok
}

func sameKey(a, b mIn) bool {
	return verif.And(a.ctrl == b.ctrl, a.ns == b.ns, a.typ == b.typ, a.hasID == b.hasID, verif.Or(!a.hasID, a.id == b.id))
}

func (m *model) hasKey(in mIn) bool {
	has := false
	for _, x := range m.ins {
		has = verif.Or(has, sameKey(x, in))
	}
	return has
}

func symCtrl(names []string) string {
	c := verif.Atom("ctrl")
	verif.Assume(verif.Or(c == names[0], c == names[1]))
	return c
}

func symInput(names []string) (mIn, controller.Input) {
	k := verif.Int("kind")
	verif.Assume(verif.And(k >= 0, k <= 5))
	in := mIn{ctrl: symCtrl(names), ns: verif.Atom("ns"), typ: verif.Atom("type"), kind: k}
	ci := controller.Input{Namespace: in.ns, Type: in.typ, Kind: in.kind}
	forms := 2
	if verif.Tier() == "thorough" {
		forms = 3
	}
	switch verif.Choose("idForm", forms) {
	case 1:
		in.hasID = true
		in.id = verif.Atom("id")
		ci.ID = optional.Some(in.id)
	case 2: // the Some("") corner: equal to None in Compare, different in EqualKeys
		in.hasID = true
		in.id = ""
		ci.ID = optional.Some("")
	}
	return in, ci
}

func step(db *dependency.Database, m *model, names []string) {
	switch verif.Choose("op", 3) {
	case 0:
		verif.Case("AddControllerOutput")
		c, t := symCtrl(names), verif.Atom("outType")
		k := verif.Choose("outKind", 2)
		want := m.outputAccepted(c, t, k)
		err := db.AddControllerOutput(c, controller.Output{Type: t, Kind: k})
		verif.Assert(verif.Iff(err == nil, want), "output accepted iff no exclusive/shared conflict")
		if err == nil {
			m.outs = append(m.outs, mOut{c, t, k})
		} else {
			verif.Cover("output rejected")
		}
	case 1:
		verif.Case("AddControllerInput")
		in, ci := symInput(names)
		dup := m.hasKey(in)
		err := db.AddControllerInput(in.ctrl, ci)
		verif.Assert(verif.Iff(err == nil, !dup), "input accepted iff the controller has no input with the same (namespace,type,id)")
		if err == nil {
			m.ins = append(m.ins, in)
		} else {
			verif.Cover("duplicate input rejected")
		}
	case 2:
		verif.Case("DeleteControllerInput")
		in, ci := symInput(names)
		has := m.hasKey(in)
		err := db.DeleteControllerInput(in.ctrl, ci)
		verif.Assert(verif.Iff(err == nil, has), "delete succeeds iff the controller has that input")
		if err == nil {
			verif.Cover("input deleted")
			// remove the (unique) entry with that key from the model
			var rest []mIn
			for _, x := range m.ins {
				if !sameKey(x, in) {
					rest = append(rest, x)
				}
			}
			m.ins = rest
		}
	}
}

func b2i(b bool) int {
	if b {
		return 1
	}
	return 0
}

func checkLookups(db *dependency.Database, m *model, names []string) {
	verif.Case("lookups")
	ns, typ, id := verif.Atom("qns"), verif.Atom("qtype"), verif.Atom("qid")
	got, err := db.GetDependentControllers(controller.Input{Namespace: ns, Type: typ, ID: optional.Some(id)})
	verif.Assert(err == nil, "dependents query succeeds")
	for _, c := range names {
		ng := 0
		for _, g := range got {
			if g == c {
				ng++
			}
		}
		nw := 0
		for _, in := range m.ins {
			if verif.And(in.ctrl == c, in.ns == ns, in.typ == typ, verif.Or(!in.hasID, in.id == id)) {
				nw++
			}
		}
		verif.Assert(ng == nw, "dependents: exactly the controllers with a matching input by kind or by ID")
		if nw > 0 {
			verif.Cover("has dependents")
		}
	}
	for _, g := range got {
		verif.Assert(verif.Or(g == names[0], g == names[1]), "dependents are registered controllers")
	}
}

func checkTables(db *dependency.Database, m *model, names []string) {
	verif.Case("tables")
	for _, c := range names {
		ins, _ := db.GetControllerInputs(c)
		n := 0
		for _, in := range m.ins {
			if in.ctrl == c {
				n++
			}
		}
		verif.Assert(len(ins) == n, "controller inputs: same number as accepted")
		for i := 1; i < len(ins); i++ {
			verif.Assert(ins[i-1].Compare(ins[i]) <= 0, "controller inputs stay sorted")
		}
		for _, x := range ins {
			found := false
			for _, in := range m.ins {
				found = verif.Or(found, verif.And(in.ctrl == c, in.ns == x.Namespace, in.typ == x.Type, in.hasID == x.ID.IsPresent(), verif.Or(!in.hasID, in.id == x.ID.ValueOrZero()), in.kind == x.Kind))
			}
			verif.Assert(found, "controller inputs: every listed input was accepted")
		}
	}
	qt := verif.Atom("qOutType")
	excl, _ := db.GetResourceExclusiveController(qt)
	wantExcl := ""
	nExcl, nShared := 0, 0
	for _, o := range m.outs {
		if o.typ == qt {
			if o.kind == controller.OutputExclusive {
				wantExcl = o.ctrl
				nExcl++
			} else {
				nShared++
			}
		}
	}
	verif.Assert(excl == wantExcl, "exclusive controller of a type is the accepted one")
	verif.Assert(nExcl <= 1 && (nExcl == 0 || nShared == 0), "at most one exclusive owner; exclusive and shared never coexist")
}

func history(steps int) (*dependency.Database, *model, []string) {
	db, _ := dependency.NewDatabase()
	names := []string{verif.Atom("ctrlA"), verif.Atom("ctrlB")}
	verif.Assume(names[0] != names[1])
	m := &model{}
	n := 1 + verif.Choose("nsteps", steps)
	for i := 0; i < n; i++ {
		step(db, m, names)
	}
	return db, m, names
}

// H_DatabaseHistory: every history of <=3 (quick) / <=4 (thorough) database
// calls with arbitrary arguments agrees with the relational model, and the
// notification lookup is exact afterwards.
func H_DatabaseHistory() {
	steps := 3
	if verif.Tier() == "thorough" {
		steps = 3
	}
	db, m, names := history(steps)
	checkLookups(db, m, names)
}

// H_DatabaseTables: per-controller tables, exclusivity and the exported graph after a history.
func H_DatabaseTables() {
	steps := 2 // both tiers (3 calls: 1.6 million paths, 80 min); the thorough tier adds the Some("") id form
	db, m, names := history(steps)
	checkTables(db, m, names)
	g, err := db.Export()
	verif.Assert(err == nil, "export succeeds")
	verif.Assert(len(g.Edges) == len(m.outs)+len(m.ins), "graph lists exactly the accepted inputs and outputs")
	verif.Cover("exported")
}

// H_DependentsSnapshot: the list of dependent controllers handed out for a
// change is a snapshot: registrations that happen afterwards (the runtime uses
// the list after releasing the database lock) never alter it.
func H_DependentsSnapshot() {
	db, _ := dependency.NewDatabase()
	ns, typ, id := verif.Atom("ns"), verif.Atom("type"), verif.Atom("id")
	nKind := 1 + verif.Choose("kindWide", 4)
	names := []string{"c1", "c2", "c3", "c4", "c5", "c6"}
	for i := 0; i < nKind; i++ {
		verif.Assert(db.AddControllerInput(names[i], controller.Input{Namespace: ns, Type: typ, Kind: controller.InputWeak}) == nil, "kind-wide input accepted")
	}
	byID := verif.Choose("byID", 2) == 1
	if byID {
		verif.Assert(db.AddControllerInput("byid", controller.Input{Namespace: ns, Type: typ, ID: optional.Some(id), Kind: controller.InputWeak}) == nil, "by-ID input accepted")
	}
	got, err := db.GetDependentControllers(controller.Input{Namespace: ns, Type: typ, ID: optional.Some(id)})
	verif.Assert(err == nil, "dependents query succeeds")
	snapshot := append([]string(nil), got...)
	// a late registration on the same kind, and one on the same id
	verif.Assert(db.AddControllerInput("late", controller.Input{Namespace: ns, Type: typ, Kind: controller.InputWeak}) == nil, "late kind-wide input accepted")
	verif.Assert(db.AddControllerInput("late2", controller.Input{Namespace: ns, Type: typ, ID: optional.Some(id), Kind: controller.InputStrong}) == nil, "late by-ID input accepted")
	verif.Assert(len(got) == len(snapshot), "snapshot length unchanged")
	for i := range got {
		verif.Assert(got[i] == snapshot[i], "the dependents list handed out earlier is not altered by later registrations")
	}
	want := nKind
	if byID {
		want++
	}
	verif.Assert(len(snapshot) == want, "dependents = kind-wide plus by-ID controllers")
	verif.Cover("snapshot checked")
}
