package zzverif_c16

import (
	"context"
	"errors"
	"fmt"
	"time"

	"github.com/siderolabs/gen/xerrors"
	"go.uber.org/zap"

	"github.com/cosi-project/runtime/pkg/controller"
	"github.com/cosi-project/runtime/pkg/controller/generic/qtransform"
	"github.com/cosi-project/runtime/pkg/controller/runtime/internal/adapter"
	"github.com/cosi-project/runtime/pkg/controller/runtime/internal/cache"
	"github.com/cosi-project/runtime/pkg/controller/runtime/internal/dependency"
	"github.com/cosi-project/runtime/pkg/controller/runtime/internal/qruntime"
	"github.com/cosi-project/runtime/pkg/controller/runtime/internal/reduced"
	"github.com/cosi-project/runtime/pkg/controller/runtime/options"
	"github.com/cosi-project/runtime/pkg/resource"
	"github.com/cosi-project/runtime/pkg/state"
	"github.com/cosi-project/runtime/pkg/state/impl/inmem"
	"github.com/cosi-project/runtime/pkg/state/impl/namespaced"
	"github.com/cosi-project/runtime/zzverif/tres"
	"github.com/cosi-project/runtime/zzverif/verif"
)

const (
	oOK = iota
	oError
	oRequeueErr      // RequeueError with inner error, interval 3s
	oRequeueInterval // RequeueError without error, interval 3s
	oSkip
	oPanic
	oTimeoutErr // an error wrapping context.DeadlineExceeded (a timed-out upstream call), runtime still running
	nOutcomes
)

type call struct {
	id      string
	at      time.Time
	outcome int
}

type probeQ struct {
	script []int // outcomes of successive reconciles of item "x"
	calls  []call
}

func (p *probeQ) Name() string { return "probe" }
func (p *probeQ) Settings() controller.QSettings {
	return controller.QSettings{Inputs: []controller.Input{{Namespace: tres.NS, Type: tres.TypeA, Kind: controller.InputQPrimary}}}
}
func (p *probeQ) MapInput(context.Context, *zap.Logger, controller.QRuntime, controller.ReducedResourceMetadata) ([]resource.Pointer, error) {
	return nil, nil
}

func (p *probeQ) Reconcile(_ context.Context, _ *zap.Logger, _ controller.QRuntime, ptr resource.Pointer) error {
	outcome := oOK
	if ptr.ID() == "x" {
		n := 0
		for _, c := range p.calls {
			if c.id == "x" {
				n++
			}
		}
		if n < len(p.script) {
			outcome = p.script[n]
		}
	}
	p.calls = append(p.calls, call{ptr.ID(), time.Now(), outcome})
	switch outcome {
	case oError:
		return errors.New("reconcile failed")
	case oRequeueErr:
		return controller.NewRequeueError(errors.New("failed, retry later"), 3*time.Second)
	case oRequeueInterval:
		return controller.NewRequeueInterval(3 * time.Second)
	case oSkip:
		return xerrors.NewTaggedf[qtransform.SkipReconcileTag]("skipped")
	case oPanic:
		panic("reconcile panicked")
	case oTimeoutErr:
		return fmt.Errorf("upstream call: %w", context.DeadlineExceeded)
	}
	return nil
}

func trigger(ad *qruntime.Adapter, id string) {
	md := resource.NewMetadata(tres.NS, tres.TypeA, id, resource.VersionUndefined)
	red := reduced.NewMetadata(&md)
	ad.WatchTrigger(&red)
}

// H_QItemOutcomes: a queue item whose successive reconciles fail/panic/requeue/skip in any
// pattern of length <=3 (quick) / <=4 (thorough) is retried with non-decreasing backoff that
// resets on success, explicit intervals are honoured, another item is never delayed, and panics are contained.
func H_QItemOutcomes() {
	n := 3
	if verif.Tier() == "thorough" {
		n = 4
	}
	ctx, cancel := context.WithCancel(context.Background())
	defer cancel()
	st := state.WrapCore(namespaced.NewState(inmem.Build))
	db, _ := dependency.NewDatabase()
	p := &probeQ{}
	for i := 0; i < n; i++ {
		o := verif.Int("outcome") // decided lazily by the solver where the code branches on it
		verif.Assume(verif.And(o >= 0, o < nOutcomes))
		p.script = append(p.script, o)
	}
	opts := options.DefaultOptions()
	opts.MetricsEnabled = false
	ad, err := qruntime.NewAdapter(p, adapter.Options{Logger: zap.NewNop(), State: st, Cache: cache.NewResourceCache(nil), DepDB: db, RuntimeOptions: opts,
		RegisterWatch: func(resource.Namespace, resource.Type) error { return nil }})
	verif.Assert(err == nil, "adapter created")
	finished := false
	go func() { ad.Run(ctx); finished = true }()
	verif.Quiesce()
	start := time.Now()
	trigger(ad, "x")
	trigger(ad, "y") // a healthy item notified at the same moment
	// let every retry happen: virtual time advances while everything is idle
	time.Sleep(5 * time.Minute)
	verif.Quiesce()
	verif.Assert(!finished, "a failing or panicking item never stops the controller")
	var xs []call
	ys := 0
	for _, c := range p.calls {
		if c.id == "x" {
			xs = append(xs, c)
		} else {
			ys++
			verif.Assert(c.at.Sub(start) == 0, "a failing item never delays another item")
		}
	}
	verif.Assert(ys == 1, "the healthy item is reconciled exactly once")
	verif.Assert(len(xs) >= 1, "the notified item is reconciled")
	lastFailDelay := time.Duration(0)
	for i, c := range xs {
		retried := i+1 < len(xs)
		var delay time.Duration
		if retried {
			delay = xs[i+1].at.Sub(c.at)
		}
		switch c.outcome {
		case oOK, oSkip:
			verif.Assert(!retried, "no further reconcile after success or skip without a new notification")
			lastFailDelay = 0
		case oRequeueInterval, oRequeueErr:
			verif.Assert(retried && delay == 3*time.Second, "an explicit requeue interval is honoured exactly")
			if c.outcome == oRequeueInterval {
				lastFailDelay = 0 // a plain requeue is a success: backoff cleared
			}
		case oError, oPanic, oTimeoutErr:
			verif.Assert(retried, "a failed or panicked reconcile is retried (fresh reconcile) once faults cease")
			verif.Assert(delay > 0, "the retry comes after a positive backoff")
			verif.Assert(lastFailDelay == 0 || delay > lastFailDelay, "backoff grows across consecutive failures (jitter fixed at its mid value)")
			if lastFailDelay == 0 {
				verif.Cover("first failure")
			} else if delay > lastFailDelay {
				verif.Cover("backoff grew")
			}
			lastFailDelay = delay
		}
	}
	verif.Assert(xs[len(xs)-1].outcome == oOK || xs[len(xs)-1].outcome == oSkip, "the item converges once faults cease")
	verif.Cover("outcomes checked")
}

// ---- plain controller restart loop ----

type probeC struct {
	script   []int
	calls    []time.Time
	pending  []bool // a reconcile event was pending at (re)start
	resetAt  int    // invocation index at which the controller calls ResetRestartBackoff (-1 never)
	tracking bool   // the controller uses the optional output-tracking API in every reconcile
}

func (p *probeC) Name() string                 { return "plain" }
func (p *probeC) Inputs() []controller.Input   { return nil }
func (p *probeC) Outputs() []controller.Output { return nil }
func (p *probeC) Run(ctx context.Context, r controller.Runtime, _ *zap.Logger) error {
	n := len(p.calls)
	p.calls = append(p.calls, time.Now())
	got := false
	select {
	case <-r.EventCh():
		got = true
	default:
	}
	p.pending = append(p.pending, got)
	if n == p.resetAt {
		r.ResetRestartBackoff()
	}
	if p.tracking {
		r.StartTrackingOutputs() // a fault below happens between StartTrackingOutputs and CleanupOutputs
	}
	outcome := oOK
	if n < len(p.script) {
		outcome = p.script[n]
	}
	switch outcome {
	case oError:
		return errors.New("controller failed")
	case oPanic:
		panic("controller panicked")
	}
	<-ctx.Done()
	return nil
}

// H_ControllerRestarts: a controller whose successive Run invocations fail or panic in any
// pattern is restarted with growing, resettable backoff and a fresh reconcile event; cancellation stops it.
func H_ControllerRestarts() {
	n := 3
	if verif.Tier() == "thorough" {
		n = 4
	}
	ctx, cancel := context.WithCancel(context.Background())
	st := state.WrapCore(namespaced.NewState(inmem.Build))
	db, _ := dependency.NewDatabase()
	p := &probeC{resetAt: verif.Choose("resetAt", n+1) - 1, tracking: verif.Choose("tracksOutputs", 2) == 1}
	for i := 0; i < n; i++ {
		o := oOK
		switch verif.Choose("outcome", 3) {
		case 1:
			o = oError
		case 2:
			o = oPanic
		}
		p.script = append(p.script, o)
	}
	opts := options.DefaultOptions()
	opts.MetricsEnabled = false
	ad, err := rruntimeNew(p, adapter.Options{Logger: zap.NewNop(), State: st, Cache: cache.NewResourceCache(nil), DepDB: db, RuntimeOptions: opts,
		RegisterWatch: func(resource.Namespace, resource.Type) error { return nil }})
	verif.Assert(err == nil, "adapter created")
	finished := false
	go func() { ad.Run(ctx); finished = true }()
	time.Sleep(10 * time.Minute)
	verif.Quiesce()
	verif.Assert(!finished, "errors and panics never end the controller loop while the runtime is running")
	last := time.Duration(0)
	for i := range p.calls {
		verif.Assert(p.pending[i], "every (re)start finds a reconcile event pending (fresh reconcile)")
		if i+1 < len(p.calls) {
			verif.Assert(i < len(p.script) && p.script[i] != oOK, "only a failed or panicked run is restarted")
			d := p.calls[i+1].Sub(p.calls[i])
			verif.Assert(d > 0, "restart after a positive backoff")
			if i == p.resetAt {
				verif.Assert(last == 0 || d <= last, "ResetRestartBackoff returns the backoff to its initial interval")
				verif.Cover("backoff reset")
			} else {
				verif.Assert(last == 0 || d > last, "restart backoff grows across consecutive failures (jitter fixed at its mid value)")
			}
			last = d
		} else {
			verif.Assert(i >= len(p.script) || p.script[i] == oOK, "a failed or panicked run is always followed by a restart")
		}
	}
	cancel()
	verif.Quiesce()
	verif.Assert(finished, "on cancellation the controller loop returns")
	verif.Cover("restarts checked")
}

// ---- task restarts ----

type tspec struct {
	script  []int
	calls   []time.Time
	running int
}

func (s *tspec) ID() string { return "t" }
func (s *tspec) RunTask(ctx context.Context, _ *zap.Logger, _ int) error {
	n := len(s.calls)
	s.calls = append(s.calls, time.Now())
	s.running++
	defer func() { s.running-- }()
	outcome := oOK
	if n < len(s.script) {
		outcome = s.script[n]
	}
	switch outcome {
	case oError:
		return errors.New("task failed")
	case oPanic:
		panic("task panicked")
	}
	<-ctx.Done()
	return nil
}

func H_TaskRestarts() {
	n := 3
	if verif.Tier() == "thorough" {
		n = 4
	}
	s := &tspec{}
	for i := 0; i < n; i++ {
		o := oOK
		switch verif.Choose("outcome", 3) {
		case 1:
			o = oError
		case 2:
			o = oPanic
		}
		s.script = append(s.script, o)
	}
	t := taskNew(zap.NewNop(), s, 0)
	t.Start(context.Background())
	time.Sleep(10 * time.Minute)
	verif.Quiesce()
	last := time.Duration(0)
	for i := range s.calls {
		if i+1 < len(s.calls) {
			verif.Assert(s.script[i] != oOK, "only a failed or panicked task run is restarted")
			d := s.calls[i+1].Sub(s.calls[i])
			verif.Assert(d > 0 && (last == 0 || d > last), "task restarts come after a positive, growing backoff (jitter fixed at its mid value)")
			last = d
		} else {
			verif.Assert(i >= len(s.script) || s.script[i] == oOK, "a failed or panicked task run is always restarted")
		}
	}
	verif.Assert(s.running == 1, "the task is running again once faults cease")
	t.Stop()
	verif.Assert(s.running == 0, "Stop returns only after the task function returned")
	verif.Cover("task restarts checked")
}
