package zzverif_c16

import (
	"go.uber.org/zap"

	"github.com/cosi-project/runtime/pkg/controller"
	"github.com/cosi-project/runtime/pkg/controller/runtime/internal/adapter"
	"github.com/cosi-project/runtime/pkg/controller/runtime/internal/rruntime"
	"github.com/cosi-project/runtime/pkg/task"
)

func rruntimeNew(c controller.Controller, o adapter.Options) (*rruntime.Adapter, error) {
	return rruntime.NewAdapter(c, o)
}

func taskNew(l *zap.Logger, s *tspec, in int) *task.Task[int, *tspec] {
	return task.New[int, *tspec](l, s, in)
}
