package zzverif_c08

import (
	"context"

	"go.uber.org/zap"
	"golang.org/x/time/rate"

	"github.com/cosi-project/runtime/pkg/controller"
	"github.com/cosi-project/runtime/pkg/controller/runtime/internal/cache"
	"github.com/cosi-project/runtime/pkg/controller/runtime/internal/controllerstate"
	"github.com/cosi-project/runtime/pkg/resource"
	"github.com/cosi-project/runtime/pkg/safe"
	"github.com/cosi-project/runtime/pkg/state"
	"github.com/cosi-project/runtime/pkg/state/impl/inmem"
	"github.com/cosi-project/runtime/pkg/state/impl/namespaced"
	"github.com/cosi-project/runtime/pkg/state/owned"
	"github.com/cosi-project/runtime/zzverif/tres"
	"github.com/cosi-project/runtime/zzverif/verif"
)

// H_ModifyOptions (C08/C04): a controller modifying its own output through the runtime API (untyped
// Modify and the typed safe.WriterModifyWithResult): the expected-phase options decide - by default
// the running phase is expected, WithExpectedPhase(p) succeeds only in phase p and otherwise fails with a
// phase conflict leaving the resource untouched; created resources carry the controller's name.
func H_ModifyOptions() {
	ctx := context.Background()
	core := &tres.Counting{Inner: namespaced.NewState(inmem.Build)}
	st := state.WrapCore(core)
	ad := &controllerstate.StateAdapter{
		OwnedState:    owned.New(st, ctrlName),
		Cache:         cache.NewResourceCache(nil),
		Name:          ctrlName,
		UpdateLimiter: rate.NewLimiter(rate.Inf, 1),
		Logger:        zap.NewNop(),
		Outputs:       []controller.Output{{Type: tres.TypeA, Kind: controller.OutputExclusive}},
	}
	ptr := resource.NewMetadata(tres.NS, tres.TypeA, "a", resource.VersionUndefined)
	present := verif.Choose("present", 2) == 1
	tearing := false
	if present {
		verif.Assert(st.Create(ctx, tres.NewA(tres.NS, "a", "old"), state.WithCreateOwner(ctrlName)) == nil, "pre-state")
		if tearing = verif.Choose("tearingDown", 2) == 1; tearing {
			_, err := st.Teardown(ctx, ptr, state.WithTeardownOwner(ctrlName))
			verif.Assert(err == nil, "pre-state teardown")
		}
	}
	var opts []controller.ModifyOption
	expect := verif.Choose("expectedPhase", 4) // 0 default, 1 running, 2 tearing down, 3 any
	switch expect {
	case 1:
		opts = append(opts, controller.WithExpectedPhase(resource.PhaseRunning))
	case 2:
		opts = append(opts, controller.WithExpectedPhase(resource.PhaseTearingDown))
	case 3:
		opts = append(opts, controller.WithExpectedPhaseAny())
	}
	mutate := func(r *tres.A) error {
		r.TypedSpec().S = "new"
		return nil
	}
	var err error
	if verif.Choose("typedWrapper", 2) == 1 {
		verif.Case("safe.WriterModifyWithResult")
		var got *tres.A
		got, err = safe.WriterModifyWithResult(ctx, ad, tres.NewA(tres.NS, "a", ""), mutate, opts...)
		if err == nil {
			verif.Assert(got != nil && got.TypedSpec().S == "new", "the typed wrapper returns the modified resource")
		}
	} else {
		verif.Case("Modify")
		err = ad.Modify(ctx, tres.NewA(tres.NS, "a", ""), func(r resource.Resource) error { return mutate(r.(*tres.A)) }, opts...)
	}
	should := !present || expect == 3 || (expect == 2) == tearing
	verif.Assert((err == nil) == should, "Modify succeeds iff the resource is absent or its phase meets the expectation (default: running)")
	cur, gerr := st.Get(ctx, ptr)
	if err == nil {
		verif.Assert(gerr == nil && tres.SpecOf(cur).S == "new" && cur.Metadata().Owner() == ctrlName, "a successful Modify is applied and the resource is owned by the controller")
		verif.Cover("modified")
	} else {
		verif.Assert(state.IsPhaseConflictError(err), "the rejection is a phase conflict")
		verif.Assert(gerr == nil && tres.SpecOf(cur).S == "old" && cur.Metadata().Version().Value() == map[bool]uint64{false: 1, true: 2}[tearing], "a rejected Modify leaves the resource untouched")
		verif.Cover("phase conflict")
	}
}
