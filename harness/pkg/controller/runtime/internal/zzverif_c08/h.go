package zzverif_c08

import (
	"context"

	"github.com/siderolabs/gen/optional"
	"go.uber.org/zap"
	"golang.org/x/time/rate"

	"github.com/cosi-project/runtime/pkg/controller"
	"github.com/cosi-project/runtime/pkg/controller/runtime/internal/cache"
	"github.com/cosi-project/runtime/pkg/controller/runtime/internal/controllerstate"
	"github.com/cosi-project/runtime/pkg/resource"
	"github.com/cosi-project/runtime/pkg/state"
	"github.com/cosi-project/runtime/pkg/state/impl/inmem"
	"github.com/cosi-project/runtime/pkg/state/impl/namespaced"
	"github.com/cosi-project/runtime/pkg/state/owned"
	"github.com/cosi-project/runtime/zzverif/tres"
	"github.com/cosi-project/runtime/zzverif/verif"
)

type decl struct {
	ns, typ, id string
	hasID       bool
	kind        controller.InputKind
}

var kinds = []controller.InputKind{controller.InputWeak, controller.InputStrong, controller.InputDestroyReady, controller.InputQPrimary, controller.InputQMapped, controller.InputQMappedDestroyReady}

const ctrlName = "ctrl"

func setup(maxIn, maxOut int) (*controllerstate.StateAdapter, *tres.Counting, state.State, []decl, []string) {
	nin := verif.Choose("ninputs", maxIn+1)
	var ins []decl
	var inputs []controller.Input
	for i := 0; i < nin; i++ {
		d := decl{ns: verif.Atom("inNS"), typ: verif.Atom("inType"), kind: kinds[verif.Choose("inKind", len(kinds))]}
		in := controller.Input{Namespace: d.ns, Type: d.typ, Kind: d.kind}
		if verif.Choose("inHasID", 2) == 1 {
			d.hasID = true
			d.id = verif.Atom("inID")
			in.ID = optional.Some(d.id)
		}
		ins = append(ins, d)
		inputs = append(inputs, in)
	}
	nout := verif.Choose("noutputs", maxOut+1)
	var outs []string
	var outputs []controller.Output
	for i := 0; i < nout; i++ {
		t := verif.Atom("outType")
		outs = append(outs, t)
		outputs = append(outputs, controller.Output{Type: t, Kind: verif.Choose("outKind", 2)})
	}
	core := &tres.Counting{Inner: namespaced.NewState(inmem.Build)}
	st := state.WrapCore(core)
	ad := &controllerstate.StateAdapter{
		OwnedState:    owned.New(st, ctrlName),
		Cache:         cache.NewResourceCache(nil),
		Name:          ctrlName,
		UpdateLimiter: rate.NewLimiter(rate.Inf, 1),
		Logger:        zap.NewNop(),
		Inputs:        inputs,
		Outputs:       outputs,
	}
	return ad, core, st, ins, outs
}

func isOutput(outs []string, t string) bool {
	for _, o := range outs {
		if o == t {
			return true
		}
	}
	return false
}

func readAllowed(ins []decl, outs []string, ns, typ, id string, hasID bool) bool {
	if isOutput(outs, typ) {
		return true
	}
	for _, d := range ins {
		if d.ns == ns && d.typ == typ {
			if !d.hasID {
				return true
			}
			if hasID && d.id == id {
				return true
			}
		}
	}
	return false
}

func finalizerAllowed(ins []decl, ns, typ, id string) bool {
	for _, d := range ins {
		if d.ns == ns && d.typ == typ && (d.kind == controller.InputStrong || d.kind == controller.InputQPrimary || d.kind == controller.InputQMapped) {
			if !d.hasID || d.id == id {
				return true
			}
		}
	}
	return false
}

// H_Access: allow/deny of every adapter operation equals the documented rule
// for arbitrary declarations and targets; a denied call never reaches the store.
func H_Access() {
	maxIn, maxOut := 2, 1
	if verif.Tier() == "thorough" {
		maxIn, maxOut = 2, 2
	}
	ctx := context.Background()
	ad, core, st, ins, outs := setup(maxIn, maxOut)
	ns, typ, id := verif.Atom("ns"), verif.Atom("type"), verif.Atom("id")
	// optional pre-existing resource at the target
	exists := verif.Choose("exists", 2) == 1
	storedOwner := ""
	if exists {
		storedOwner = verif.Atom("storedOwner")
		verif.Assert(st.Create(ctx, tres.NewAt(ns, typ, id, "old"), state.WithCreateOwner(storedOwner)) == nil, "pre-state create")
	}
	core.Calls, core.Writes = 0, 0
	ptr := resource.NewMetadata(ns, typ, id, resource.VersionUndefined)
	op := verif.Choose("op", 10)
	var err error
	var allowed bool
	switch op {
	case 0:
		verif.Case("Get")
		_, err = ad.Get(ctx, ptr)
		allowed = readAllowed(ins, outs, ns, typ, id, true)
	case 1:
		verif.Case("List")
		_, err = ad.List(ctx, ptr)
		allowed = readAllowed(ins, outs, ns, typ, "", false)
	case 2:
		verif.Case("Create")
		err = ad.Create(ctx, tres.NewAt(ns, typ, id, "new"))
		allowed = isOutput(outs, typ)
	case 3:
		verif.Case("Update")
		r := tres.NewAt(ns, typ, id, "new")
		r.Metadata().SetVersion(resource.VersionUndefined.Next())
		err = ad.Update(ctx, r)
		allowed = isOutput(outs, typ)
	case 4:
		verif.Case("Modify")
		err = ad.Modify(ctx, tres.NewAt(ns, typ, id, ""), func(r resource.Resource) error {
			r.(*tres.A).TypedSpec().S = "new"
			return nil
		})
		allowed = isOutput(outs, typ)
	case 5:
		verif.Case("Teardown")
		_, err = ad.Teardown(ctx, ptr)
		allowed = isOutput(outs, typ)
	case 6:
		verif.Case("Destroy")
		err = ad.Destroy(ctx, ptr)
		allowed = isOutput(outs, typ)
	case 7:
		verif.Case("AddFinalizer")
		err = ad.AddFinalizer(ctx, ptr, "fin")
		allowed = finalizerAllowed(ins, ns, typ, id)
	case 8:
		verif.Case("RemoveFinalizer")
		err = ad.RemoveFinalizer(ctx, ptr, "fin")
		allowed = finalizerAllowed(ins, ns, typ, id)
	case 9:
		verif.Case("GetUncached")
		_, err = ad.GetUncached(ctx, ptr)
		allowed = readAllowed(ins, outs, ns, typ, id, true)
	}
	verif.Observe("store calls > 0", core.Calls > 0)
	verif.Assert((core.Calls > 0) == allowed, "an operation reaches the store iff the declarations allow it")
	if !allowed {
		verif.Cover("denied")
		verif.Assert(err != nil, "a denied operation returns an error")
		verif.Assert(core.Writes == 0, "a denied operation performs no write")
	} else {
		verif.Cover("allowed")
	}
	// ownership: a write by the controller on a resource owned by somebody else fails and changes nothing
	isWrite := op == 3 || op == 4 || op == 5 || op == 6
	if allowed && exists && isWrite {
		after, gerr := st.Get(ctx, ptr)
		if storedOwner != ctrlName {
			verif.Cover("foreign owner")
			verif.Assert(err != nil, "write on a resource owned by another party fails")
			verif.Assert(state.IsOwnerConflictError(err), "and is reported as owner conflict")
			verif.Assert(gerr == nil, "foreign resource still exists")
			verif.Assert(after.Metadata().Version().Equal(resource.VersionUndefined.Next()), "foreign resource unchanged (version)")
			verif.Assert(after.Metadata().Phase() == resource.PhaseRunning, "foreign resource unchanged (phase)")
			verif.Assert(tres.SpecOf(after).S == "old", "foreign resource unchanged (content)")
		} else {
			verif.Cover("own resource")
			verif.Assert(err == nil, "write on an own resource succeeds")
		}
	}
	if allowed && op == 2 {
		after, gerr := st.Get(ctx, ptr)
		verif.Assert(gerr == nil, "resource exists after allowed create attempt")
		if exists {
			verif.Assert(state.IsConflictError(err), "create over an existing resource conflicts")
			verif.Assert(after.Metadata().Owner() == storedOwner, "existing owner kept")
		} else {
			verif.Cover("created")
			verif.Assert(err == nil, "create of an absent output succeeds")
			verif.Assert(after.Metadata().Owner() == ctrlName, "created resource is stamped with the controller name")
		}
	}
	if allowed && op == 4 && !exists {
		after, gerr := st.Get(ctx, ptr)
		verif.Assert(err == nil && gerr == nil, "modify of an absent output creates it")
		verif.Assert(after.Metadata().Owner() == ctrlName, "modify-created resource is stamped with the controller name")
	}
}

// H_ExplicitOwner: Teardown/Destroy with an explicitly named owner compare that owner.
func H_ExplicitOwner() {
	ctx := context.Background()
	ad, _, st, _, outs := setup(0, 1)
	verif.Assume(len(outs) == 1)
	ns, id := verif.Atom("ns"), verif.Atom("id")
	typ := outs[0]
	storedOwner := verif.Atom("storedOwner")
	verif.Assert(st.Create(ctx, tres.NewAt(ns, typ, id, "old"), state.WithCreateOwner(storedOwner)) == nil, "pre-state create")
	ptr := resource.NewMetadata(ns, typ, id, resource.VersionUndefined)
	named := verif.Atom("namedOwner")
	var err error
	if verif.Choose("op", 2) == 0 {
		_, err = ad.Teardown(ctx, ptr, controller.WithOwner(named))
	} else {
		err = ad.Destroy(ctx, ptr, controller.WithOwner(named))
	}
	verif.Assert((err == nil) == (named == storedOwner), "with an explicit owner the operation succeeds iff that owner is the stored one")
	if err != nil {
		verif.Assert(state.IsOwnerConflictError(err), "mismatch is an owner conflict")
		after, gerr := st.Get(ctx, ptr)
		verif.Assert(gerr == nil && after.Metadata().Phase() == resource.PhaseRunning, "resource untouched")
		verif.Cover("explicit owner mismatch")
	} else {
		verif.Cover("explicit owner match")
	}
}
