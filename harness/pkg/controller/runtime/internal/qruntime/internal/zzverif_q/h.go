package zzverif_q

import (
	"context"
	"time"

	"github.com/cosi-project/runtime/pkg/controller/runtime/internal/qruntime/internal/queue"
	"github.com/cosi-project/runtime/zzverif/verif"
)

type pending struct {
	key string
	val int
	at  time.Time
}

type parked struct {
	key string
	val int
}

type heldItem struct {
	item *queue.Item[string, int]
	key  string
	val  int
}

type model struct {
	pend []pending
	park []parked
	held []heldItem
}

func (m *model) pendIdx(k string) int {
	for i := range m.pend {
		if m.pend[i].key == k {
			return i
		}
	}
	return -1
}

func (m *model) parkIdx(k string) int {
	for i := range m.park {
		if m.park[i].key == k {
			return i
		}
	}
	return -1
}

func (m *model) heldIdx(k string) int {
	for i := range m.held {
		if m.held[i].key == k {
			return i
		}
	}
	return -1
}

// push mirrors the documented queue semantics: one pending entry per key carrying the
// latest value, due at the earliest requested time.
func (m *model) push(k string, v int, at time.Time, overwrite bool) {
	if i := m.pendIdx(k); i >= 0 {
		if overwrite {
			m.pend[i].val = v
		}
		if at.Before(m.pend[i].at) {
			m.pend[i].at = at
		}
		return
	}
	m.pend = append(m.pend, pending{k, v, at})
}

// H_QueueScript: the real event loop driven by every script of 4 (quick) / 6 (thorough) actions.
func H_QueueScript() {
	nActions := 4
	if verif.Tier() == "thorough" {
		nActions = 6
	}
	ctx, cancel := context.WithCancel(context.Background())
	q := queue.NewQueue[string, int]()
	go q.Run(ctx)
	keys := []string{verif.Atom("keyA"), verif.Atom("keyB")}
	verif.Assume(keys[0] != keys[1])
	m := &model{}
	if verif.Choose("startWithHeldItem", 2) == 1 {
		// pre-state: keyA was notified and is being processed by a worker
		v0 := verif.Int("value0")
		q.Put(keys[0], v0)
		verif.Quiesce()
		it := <-q.Get()
		k, v := it.Get()
		verif.Assert(k == keys[0] && v == v0, "the only notified item is delivered with its value")
		m.held = append(m.held, heldItem{it, k, v})
		if verif.Tier() == "thorough" {
			nActions--
		}
		verif.Cover("started with a held item")
	}
	for a := 0; a < nActions; a++ {
		verif.Quiesce()
		now := time.Now()
		switch verif.Choose("action", 5) {
		case 0:
			verif.Case("Put")
			k := verif.Atom("key")
			verif.Assume(verif.Or(k == keys[0], k == keys[1]))
			v := verif.Int("value")
			q.Put(k, v)
			if m.heldIdx(k) >= 0 {
				verif.Cover("put while held")
				if i := m.parkIdx(k); i >= 0 {
					m.park[i].val = v
				} else {
					m.park = append(m.park, parked{k, v})
				}
			} else {
				if m.pendIdx(k) >= 0 {
					verif.Cover("coalesced put")
				}
				m.push(k, v, now, true)
			}
		case 1:
			verif.Case("Get")
			var it *queue.Item[string, int]
			select {
			case it = <-q.Get():
			default:
			}
			due := false
			for _, p := range m.pend {
				if !p.at.After(now) {
					due = true
				}
			}
			if it == nil {
				verif.Assert(!due, "a due notification is never lost or stalled: Get yields it")
			} else {
				verif.Cover("delivered")
				k, v := it.Get()
				verif.Assert(m.heldIdx(k) < 0, "the same item is never handed to two workers at once")
				i := m.pendIdx(k)
				verif.Assert(i >= 0, "only notified items are delivered, each once")
				verif.Assert(!m.pend[i].at.After(now), "a requeue-after / backoff is honoured: no delivery earlier than requested")
				verif.Assert(v == m.pend[i].val, "the delivery carries the most recent value")
				m.held = append(m.held, heldItem{it, k, v})
				m.pend = append(m.pend[:i:i], m.pend[i+1:]...)
			}
		case 2, 3:
			if len(m.held) == 0 {
				continue
			}
			h := m.held[verif.Choose("which held", len(m.held))]
			m.held = removeHeld(m.held, h.key)
			if verif.Choose("requeue", 2) == 0 {
				verif.Case("Release")
				h.item.Release()
			} else {
				verif.Case("Requeue")
				d := time.Duration(verif.Choose("delay", 3)) * time.Second // 0s (immediately), 1s, 2s
				at := now.Add(d)
				h.item.Requeue(at)
				m.push(h.key, h.val, at, false)
				verif.Cover("requeued")
			}
			if i := m.parkIdx(h.key); i >= 0 {
				verif.Cover("parked notification redelivered")
				m.push(h.key, m.park[i].val, now, true)
				m.park = append(m.park[:i:i], m.park[i+1:]...)
			}
		case 4:
			verif.Case("advance clock")
			time.Sleep(time.Second)
		}
		verif.Quiesce()
		verif.Assert(q.Len() == int64(len(m.pend)+len(m.park)), "reported length equals pending plus held-back items")
	}
	cancel()
	verif.Quiesce()
	// after shutdown nobody blocks
	q.Put(keys[0], 0)
	for _, h := range m.held {
		h.item.Release()
	}
	verif.Cover("shutdown does not block producers or workers")
}

func removeHeld(hs []heldItem, k string) []heldItem {
	var out []heldItem
	for _, h := range hs {
		if h.key != k {
			out = append(out, h)
		}
	}
	return out
}
