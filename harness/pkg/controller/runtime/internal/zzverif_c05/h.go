package zzverif_c05

import (
	"context"

	"github.com/siderolabs/gen/optional"
	"go.uber.org/zap"

	"github.com/cosi-project/runtime/pkg/controller"
	"github.com/cosi-project/runtime/pkg/controller/runtime/internal/adapter"
	"github.com/cosi-project/runtime/pkg/controller/runtime/internal/cache"
	"github.com/cosi-project/runtime/pkg/controller/runtime/internal/dependency"
	"github.com/cosi-project/runtime/pkg/controller/runtime/internal/reduced"
	"github.com/cosi-project/runtime/pkg/controller/runtime/internal/rruntime"
	"github.com/cosi-project/runtime/pkg/controller/runtime/options"
	"github.com/cosi-project/runtime/pkg/resource"
	"github.com/cosi-project/runtime/pkg/state"
	"github.com/cosi-project/runtime/pkg/state/impl/inmem"
	"github.com/cosi-project/runtime/pkg/state/impl/namespaced"
	"github.com/cosi-project/runtime/zzverif/verif"
)

type probe struct{ inputs []controller.Input }

func (p *probe) Name() string                 { return "probe" }
func (p *probe) Inputs() []controller.Input   { return p.inputs }
func (p *probe) Outputs() []controller.Output { return nil }
func (p *probe) Run(context.Context, controller.Runtime, *zap.Logger) error {
	return nil
}

// H_WatchTrigger (lemma L5): a change notification routed to a plain controller wakes it
// iff the changed resource matches one of its inputs in a way that input asks to be told about
// (weak/strong: every change; destroy-ready: only tearing down without finalizers).
func H_WatchTrigger() {
	st := state.WrapCore(namespaced.NewState(inmem.Build))
	db, _ := dependency.NewDatabase()
	nin := 1 + verif.Choose("ninputs", 2)
	var ins []controller.Input
	typ := verif.Atom("type")
	for i := 0; i < nin; i++ {
		k := verif.Int("kind")
		verif.Assume(verif.And(k >= 0, k <= 2))
		in := controller.Input{Namespace: "ns", Type: typ, Kind: k}
		if verif.Choose("byID", 2) == 1 {
			in.ID = optional.Some(verif.Atom("inputID"))
		}
		ins = append(ins, in)
	}
	if nin == 2 {
		verif.Assume(ins[0].ID != ins[1].ID) // distinct keys (same namespace and type)
	}
	opts := options.DefaultOptions()
	opts.MetricsEnabled = false
	p := &probe{inputs: append([]controller.Input(nil), ins...)}
	ad, err := rruntime.NewAdapter(p, adapter.Options{Logger: zap.NewNop(), State: st, Cache: cache.NewResourceCache(nil), DepDB: db, RuntimeOptions: opts,
		RegisterWatch: func(resource.Namespace, resource.Type) error { return nil }})
	verif.Assert(err == nil, "adapter created")
	<-ad.EventCh() // the initial reconcile event
	// a change of some resource of that kind
	id := verif.Atom("changedID")
	md := reduced.Metadata{Key: reduced.Key{Namespace: "ns", Typ: typ, ID: id}, Value: reduced.Value{FinalizersEmpty: verif.Bool("finalizersEmpty")}}
	if verif.Bool("tearingDown") {
		md.Phase = resource.PhaseTearingDown
	}
	deps, derr := db.GetDependentControllers(controller.Input{Namespace: "ns", Type: typ, ID: optional.Some(id)})
	verif.Assert(derr == nil, "dependents query")
	for range deps {
		ad.WatchTrigger(&md) // the runtime delivers to every dependent entry
	}
	woken := false
	select {
	case <-ad.EventCh():
		woken = true
	default:
	}
	destroyReady := verif.And(md.Phase == resource.PhaseTearingDown, md.FinalizersEmpty)
	should := false
	for _, in := range ins {
		matches := verif.Or(!in.ID.IsPresent(), in.ID.ValueOrZero() == id)
		wants := verif.Or(in.Kind != controller.InputDestroyReady, destroyReady)
		should = verif.Or(should, verif.And(matches, wants))
	}
	verif.Observe("woken", woken)
	verif.Assert(verif.Iff(woken, should), "a change of a declared input wakes the controller iff that input's kind asks for it (an input is never shadowed by another input of the same type)")
	if woken {
		verif.Cover("woken")
	} else {
		verif.Cover("not woken")
	}
}
