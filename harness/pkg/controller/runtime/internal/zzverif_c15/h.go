package zzverif_c15

import (
	"context"

	"github.com/cosi-project/runtime/pkg/controller/runtime/internal/cache"
	"github.com/cosi-project/runtime/pkg/controller/runtime/options"
	"github.com/cosi-project/runtime/pkg/resource"
	"github.com/cosi-project/runtime/pkg/state"
	"github.com/cosi-project/runtime/zzverif/tres"
	"github.com/cosi-project/runtime/zzverif/verif"
)

type entry struct {
	id      string
	version uint64
	tearing bool
	label   string
}

type model struct{ items []entry } // kept sorted by id

func (m *model) find(id string) int {
	for i := range m.items {
		if m.items[i].id == id {
			return i
		}
	}
	return -1
}

func (m *model) put(e entry) {
	if i := m.find(e.id); i >= 0 {
		m.items[i] = e
		return
	}
	pos := len(m.items)
	for i := range m.items {
		if e.id < m.items[i].id {
			pos = i
			break
		}
	}
	m.items = append(m.items, entry{})
	copy(m.items[pos+1:], m.items[pos:])
	m.items[pos] = e
}

func (m *model) remove(id string) {
	if i := m.find(id); i >= 0 {
		m.items = append(m.items[:i:i], m.items[i+1:]...)
	}
}

func mkRes(e entry) resource.Resource {
	r := tres.NewA(tres.NS, e.id, "v")
	r.Metadata().SetVersion(resource.ZZVersion(e.version))
	if e.tearing {
		r.Metadata().SetPhase(resource.PhaseTearingDown)
	}
	r.Metadata().Labels().Set("l", e.label)
	return r
}

func kind() resource.Metadata {
	return resource.NewMetadata(tres.NS, tres.TypeA, "", resource.VersionUndefined)
}

func sameAs(r resource.Resource, e entry) bool {
	l, _ := r.Metadata().Labels().Get("l")
	return verif.And(r.Metadata().ID() == e.id, r.Metadata().Version().Value() == e.version, (r.Metadata().Phase() == resource.PhaseTearingDown) == e.tearing, l == e.label)
}

func checkReads(ctx context.Context, c *cache.ResourceCache, m *model, ids []string) {
	for _, id := range ids {
		r, err := c.Get(ctx, resource.NewMetadata(tres.NS, tres.TypeA, id, resource.VersionUndefined))
		i := m.find(id)
		if i < 0 {
			verif.Assert(err != nil && state.IsNotFoundError(err), "cached Get of an absent resource is not-found")
		} else {
			verif.Assert(err == nil && sameAs(r, m.items[i]), "cached Get returns the latest cached value")
			// the returned object is a copy
			r.Metadata().Labels().Set("l", "mutated-by-reader")
			r2, _ := c.Get(ctx, r.Metadata())
			verif.Assert(sameAs(r2, m.items[i]), "objects returned by the cache are copies")
		}
	}
	l, err := c.List(ctx, kind())
	verif.Assert(err == nil && len(l.Items) == len(m.items), "cached List returns exactly the cached resources")
	for i, r := range l.Items {
		verif.Assert(sameAs(r, m.items[i]), "cached List is sorted by id and current")
	}
	// label-filtered list
	q := verif.Atom("queryLabel")
	fl, err := c.List(ctx, kind(), state.WithLabelQuery(resource.LabelEqual("l", q)))
	n := 0
	for _, e := range m.items {
		if e.label == q {
			n++
		}
	}
	verif.Assert(err == nil && len(fl.Items) == n, "filtered cached List selects exactly the matching resources")
}

func symID(ids []string) string {
	id := verif.Atom("id")
	verif.Assume(verif.Or(id == ids[0], id == ids[1], id == ids[2]))
	return id
}

// H_CacheHistory: bootstrap with 0..2 resources, blocked reads before bootstrap,
// then every history of <=2 put/remove events.
func H_CacheHistory() {
	steps := 2 // the thorough tier deepens the delay bound, not the history (3 events exceed 10^6 paths)
	ctx := context.Background()
	c := cache.NewResourceCache([]options.CachedResource{{Namespace: tres.NS, Type: tres.TypeA}})
	ids := []string{verif.Atom("idA"), verif.Atom("idB"), verif.Atom("idC")}
	verif.Assume(verif.And(ids[0] < ids[1], ids[1] < ids[2]))
	m := &model{}
	// a reader that arrives before the bootstrap is complete must block and then see the full contents
	readerDone, readerLen := false, -1
	go func() {
		l, err := c.List(ctx, kind())
		if err == nil {
			readerLen = len(l.Items)
		}
		readerDone = true
	}()
	nboot := verif.Choose("bootstrapSize", 3)
	for i := 0; i < nboot; i++ {
		e := entry{id: ids[i], version: 1, label: verif.Atom("label")}
		c.CacheAppend(mkRes(e))
		m.put(e)
		verif.Quiesce()
		verif.Assert(!readerDone, "reads block until the initial contents are complete (never a partial view)")
	}
	verif.Quiesce()
	verif.Assert(!readerDone, "reads block until the initial contents are complete")
	c.MarkBootstrapped(tres.NS, tres.TypeA)
	verif.Quiesce()
	verif.Assert(readerDone && readerLen == nboot, "a reader released by the bootstrap sees the complete initial contents")
	checkReads(ctx, c, m, ids)
	version := uint64(1)
	n := verif.Choose("nsteps", steps+1)
	for k := 0; k < n; k++ {
		id := symID(ids)
		if verif.Choose("event", 2) == 0 {
			version++
			e := entry{id: id, version: version, tearing: verif.Choose("tearingDown", 2) == 1, label: verif.Atom("label")}
			c.CachePut(mkRes(e))
			m.put(e)
			verif.Cover("put")
		} else {
			c.CacheRemove(mkRes(entry{id: id, version: version}))
			m.remove(id)
			verif.Cover("remove")
		}
		checkReads(ctx, c, m, ids)
	}
}

// H_TeardownContexts: contexts bound to the teardown of a cached resource, with several
// concurrent readers, one of which may go away first.
func H_TeardownContexts() {
	ctx := context.Background()
	c := cache.NewResourceCache([]options.CachedResource{{Namespace: tres.NS, Type: tres.TypeA}})
	present := verif.Choose("present", 2) == 1
	tearing := false
	c.CacheAppend(mkRes(entry{id: "other", version: 1})) // bootstrap contents arrive sorted by id
	if present {
		tearing = verif.Choose("alreadyTearingDown", 2) == 1
		c.CacheAppend(mkRes(entry{id: "r", version: 1, tearing: tearing}))
	}
	c.MarkBootstrapped(tres.NS, tres.TypeA)
	p := resource.NewMetadata(tres.NS, tres.TypeA, "r", resource.VersionUndefined)
	parent1, cancel1 := context.WithCancel(ctx)
	defer cancel1()
	t1, err1 := c.ContextWithTeardown(parent1, p)
	t2, err2 := c.ContextWithTeardown(ctx, p)
	verif.Assert(err1 == nil && err2 == nil, "teardown contexts obtained")
	verif.Quiesce()
	gone := !present || tearing
	verif.Assert((t1.Err() != nil) == gone && (t2.Err() != nil) == gone, "the context is cancelled at once iff the resource is absent or already tearing down")
	if verif.Choose("firstReaderLeaves", 2) == 1 {
		cancel1()
		verif.Quiesce()
		verif.Assert(t1.Err() != nil, "a context follows its parent")
		verif.Assert((t2.Err() != nil) == gone, "one reader going away never cancels another reader's context")
		verif.Cover("reader left")
	}
	switch verif.Choose("event", 4) {
	case 0:
		c.CachePut(mkRes(entry{id: "r", version: 2})) // plain update
	case 1:
		c.CachePut(mkRes(entry{id: "r", version: 2, tearing: true}))
		gone = true
	case 2:
		c.CacheRemove(mkRes(entry{id: "r", version: 2}))
		gone = true
	case 3:
		c.CachePut(mkRes(entry{id: "other", version: 2, tearing: true})) // another resource
	}
	verif.Quiesce()
	verif.Assert((t2.Err() != nil) == gone, "a teardown-bound context is cancelled exactly when that resource is torn down, removed or absent")
	if gone {
		verif.Cover("cancelled")
	} else {
		verif.Cover("still alive")
	}
	// a later event must not panic on an already released waiter
	c.CacheRemove(mkRes(entry{id: "r", version: 3}))
}
