package zzverif_c15

import (
	"context"

	"github.com/cosi-project/runtime/pkg/controller/runtime/internal/cache"
	"github.com/cosi-project/runtime/pkg/controller/runtime/options"
	"github.com/cosi-project/runtime/pkg/resource"
	"github.com/cosi-project/runtime/pkg/state"
	"github.com/cosi-project/runtime/zzverif/tres"
	"github.com/cosi-project/runtime/zzverif/verif"
)

// H_ConcurrentList: a cached List (unfiltered, label-filtered or id-filtered) and a cached Get racing
// with one cache update (put of a new or existing resource, removal): the reader never sees a view
// that did not exist - its result is the contents before or after the update, never a mixture, never
// a nil element, never a lost untouched resource.
func H_ConcurrentList() {
	ctx := context.Background()
	c := cache.NewResourceCache([]options.CachedResource{{Namespace: tres.NS, Type: tres.TypeA}})
	before := &model{}
	for _, id := range []string{"a", "b", "c"} {
		e := entry{id: id, version: 1, label: "x"}
		c.CacheAppend(mkRes(e))
		before.put(e)
	}
	c.MarkBootstrapped(tres.NS, tres.TypeA)
	if verif.Choose("spareCapacity", 2) == 1 {
		// a removal followed by a put leaves spare capacity in the backing array: later inserts are in place
		c.CacheRemove(mkRes(entry{id: "c", version: 1}))
		before.remove("c")
	}
	after := &model{items: append([]entry(nil), before.items...)}
	var update func()
	switch verif.Choose("update", 4) {
	case 0:
		update = func() { c.CacheRemove(mkRes(entry{id: "a", version: 1})) }
		after.remove("a")
	case 1:
		e := entry{id: "d", version: 1, label: "x"}
		update = func() { c.CachePut(mkRes(e)) }
		after.put(e)
	case 2:
		e := entry{id: "a0", version: 1, label: "x"} // inserted between a and b
		update = func() { c.CachePut(mkRes(e)) }
		after.put(e)
	case 3:
		e := entry{id: "b", version: 2, label: "y"}
		update = func() { c.CachePut(mkRes(e)) }
		after.put(e)
	}
	var opts []state.ListOption
	filter := verif.Choose("filter", 3)
	switch filter {
	case 1:
		opts = append(opts, state.WithLabelQuery(resource.LabelEqual("l", "x")))
	case 2:
		opts = append(opts, state.WithLabelQuery(resource.LabelExists("l")))
	}
	expected := func(m *model) []entry {
		var out []entry
		for _, e := range m.items {
			if filter != 1 || e.label == "x" {
				out = append(out, e)
			}
		}
		return out
	}
	var got resource.List
	var lerr error
	listed := false
	go func() {
		got, lerr = c.List(ctx, kind(), opts...)
		listed = true
	}()
	go update()
	verif.Quiesce()
	verif.Assert(listed && lerr == nil, "a cached List on a bootstrapped kind returns")
	matches := func(want []entry) bool {
		if len(got.Items) != len(want) {
			return false
		}
		for i, r := range got.Items {
			if r == nil || r.Metadata().ID() != want[i].id || r.Metadata().Version().Value() != want[i].version {
				return false
			}
		}
		return true
	}
	mb, ma := matches(expected(before)), matches(expected(after))
	verif.Assert(mb || ma, "a cached List concurrent with an update returns the contents before or after it, never a view that did not exist")
	if ma && !mb {
		verif.Cover("list saw the update")
	}
	if mb && !ma {
		verif.Cover("list preceded the update")
	}
}
