package zzverif_c15

import (
	"context"
	"regexp"

	"github.com/cosi-project/runtime/pkg/controller/runtime/internal/cache"
	"github.com/cosi-project/runtime/pkg/controller/runtime/options"
	"github.com/cosi-project/runtime/pkg/resource"
	"github.com/cosi-project/runtime/pkg/state"
	"github.com/cosi-project/runtime/zzverif/tres"
	"github.com/cosi-project/runtime/zzverif/verif"
)

// H_ConcurrentList: a cached List (unfiltered, label-filtered or id-filtered) and a cached Get racing
// with one cache update (put of a new or existing resource, removal): the reader never sees a view
// that did not exist - its result is the contents before or after the update, never a mixture, never
// a nil element, never a lost untouched resource.
func H_ConcurrentList() {
	ctx := context.Background()
	c := cache.NewResourceCache([]options.CachedResource{{Namespace: tres.NS, Type: tres.TypeA}})
	before := &model{}
	for _, id := range []string{"a", "b", "c"} {
		e := entry{id: id, version: 1, label: "x"}
		c.CacheAppend(mkRes(e))
		before.put(e)
	}
	c.MarkBootstrapped(tres.NS, tres.TypeA)
	if verif.Choose("spareCapacity", 2) == 1 {
		// a removal followed by a put leaves spare capacity in the backing array: later inserts are in place
		c.CacheRemove(mkRes(entry{id: "c", version: 1}))
		before.remove("c")
	}
	after := &model{items: append([]entry(nil), before.items...)}
	var update func()
	switch verif.Choose("update", 4) {
	case 0:
		update = func() { c.CacheRemove(mkRes(entry{id: "a", version: 1})) }
		after.remove("a")
	case 1:
		e := entry{id: "d", version: 1, label: "x"}
		update = func() { c.CachePut(mkRes(e)) }
		after.put(e)
	case 2:
		e := entry{id: "a0", version: 1, label: "x"} // inserted between a and b
		update = func() { c.CachePut(mkRes(e)) }
		after.put(e)
	case 3:
		e := entry{id: "b", version: 2, label: "y"}
		update = func() { c.CachePut(mkRes(e)) }
		after.put(e)
	}
	var opts []state.ListOption
	filter := verif.Choose("filter", 3)
	switch filter {
	case 1:
		opts = append(opts, state.WithLabelQuery(resource.LabelEqual("l", "x")))
	case 2:
		opts = append(opts, state.WithLabelQuery(resource.LabelExists("l")))
	}
	expected := func(m *model) []entry {
		var out []entry
		for _, e := range m.items {
			if filter != 1 || e.label == "x" {
				out = append(out, e)
			}
		}
		return out
	}
	var got resource.List
	var lerr error
	listed := false
	go func() {
		got, lerr = c.List(ctx, kind(), opts...)
		listed = true
	}()
	go update()
	verif.Quiesce()
	verif.Assert(listed && lerr == nil, "a cached List on a bootstrapped kind returns")
	matches := func(want []entry) bool {
		if len(got.Items) != len(want) {
			return false
		}
		for i, r := range got.Items {
			if r == nil || r.Metadata().ID() != want[i].id || r.Metadata().Version().Value() != want[i].version {
				return false
			}
		}
		return true
	}
	mb, ma := matches(expected(before)), matches(expected(after))
	verif.Assert(mb || ma, "a cached List concurrent with an update returns the contents before or after it, never a view that did not exist")
	if ma && !mb {
		verif.Cover("list saw the update")
	}
	if mb && !ma {
		verif.Cover("list preceded the update")
	}
}

// H_CachedIsolation (C19/C15): objects handed out by the cache - Get, unfiltered List, label-filtered
// List, id-filtered List - are isolated from it: mutating them through the public metadata/spec API
// changes nothing that later readers see.
func H_CachedIsolation() {
	ctx := context.Background()
	c := cache.NewResourceCache([]options.CachedResource{{Namespace: tres.NS, Type: tres.TypeA}})
	c.CacheAppend(mkRes(entry{id: "a", version: 1, label: "x"}))
	c.MarkBootstrapped(tres.NS, tres.TypeA)
	given := mkRes(entry{id: "b", version: 1, label: "x"})
	c.CachePut(given) // arrives through a watch event after the bootstrap
	ptrB := resource.NewMetadata(tres.NS, tres.TypeA, "b", resource.VersionUndefined)
	var victim resource.Resource
	switch verif.Choose("handOver", 4) {
	case 0:
		verif.Case("Get")
		r, err := c.Get(ctx, ptrB)
		verif.Assert(err == nil, "get")
		victim = r
	case 1:
		verif.Case("List")
		l, err := c.List(ctx, kind())
		verif.Assert(err == nil && len(l.Items) == 2, "list")
		victim = l.Items[1]
	case 2:
		verif.Case("label-filtered List")
		l, err := c.List(ctx, kind(), state.WithLabelQuery(resource.LabelEqual("l", "x")))
		verif.Assert(err == nil && len(l.Items) == 2, "filtered list")
		victim = l.Items[1]
	case 3:
		verif.Case("id-filtered List")
		l, err := c.List(ctx, kind(), state.WithIDQuery(resource.IDRegexpMatch(regexp.MustCompile("^b$"))))
		verif.Assert(err == nil && len(l.Items) == 1, "id-filtered list")
		victim = l.Items[0]
	}
	// (the object given to the cache comes from a watch event; event objects are shared and read-only
	// by contract, so it is not a hand-over point of the property)
	verif.Assert(victim.Metadata().ID() == "b", "the hand-over yields resource b")
	switch verif.Choose("mutation", 6) {
	case 0:
		victim.Metadata().Labels().Set("l", "mutated")
	case 1:
		victim.Metadata().Labels().Delete("l")
	case 2:
		victim.Metadata().Finalizers().Add("fin")
	case 3:
		victim.Metadata().SetPhase(resource.PhaseTearingDown)
	case 4:
		victim.Metadata().SetVersion(resource.ZZVersion(9))
	case 5:
		victim.(*tres.A).TypedSpec().S = "mutated"
	}
	want := entry{id: "b", version: 1, label: "x"}
	r, err := c.Get(ctx, ptrB)
	verif.Assert(err == nil && sameAs(r, want) && r.Metadata().Finalizers().Empty() && tres.SpecOf(r).S == "v", "mutating an object handed out by the cache does not change what cached Get returns")
	l, err := c.List(ctx, kind(), state.WithLabelQuery(resource.LabelEqual("l", "x")))
	verif.Assert(err == nil && len(l.Items) == 2 && sameAs(l.Items[1], want) && l.Items[1].Metadata().Finalizers().Empty() && tres.SpecOf(l.Items[1]).S == "v", "nor what a filtered cached List returns")
	verif.Cover("isolation checked")
}
