package zzverif_c14

import (
	"context"

	"github.com/cosi-project/runtime/pkg/controller/runtime/internal/cache"
	"github.com/cosi-project/runtime/pkg/controller/runtime/options"
	"github.com/cosi-project/runtime/pkg/resource"
	"github.com/cosi-project/runtime/pkg/state"
	"github.com/cosi-project/runtime/pkg/state/impl/inmem"
	"github.com/cosi-project/runtime/pkg/state/impl/namespaced"
	"github.com/cosi-project/runtime/zzverif/c11"
	"github.com/cosi-project/runtime/zzverif/tres"
	"github.com/cosi-project/runtime/zzverif/verif"
)

var lexOps = []resource.LabelOp{resource.LabelOpExists, resource.LabelOpEqual, resource.LabelOpIn, resource.LabelOpLT, resource.LabelOpLTE}

func symTerm() resource.LabelTerm {
	t := resource.LabelTerm{Key: "k", Op: lexOps[verif.Choose("op", len(lexOps))], Invert: verif.Bool("invert")}
	for i, n := 0, verif.Choose("nvalues", 3); i < n; i++ {
		t.Value = append(t.Value, verif.Atom("termValue"))
	}
	return t
}

func kind() resource.Metadata {
	return resource.NewMetadata(tres.NS, tres.TypeA, "", resource.VersionUndefined)
}

var ids = []string{"a", "b"}

func mk(id string, labelled bool, v string) *tres.A {
	r := tres.NewA(tres.NS, id, "s")
	if labelled {
		r.Metadata().Labels().Set("k", v)
	} else if verif.Choose("otherLabel", 2) == 1 {
		r.Metadata().Labels().Set("other", "x") // has labels, but not the queried key
	}
	return r
}

func has(l resource.List, id string) bool {
	for _, r := range l.Items {
		if r.Metadata().ID() == id {
			return true
		}
	}
	return false
}

// H_SitesAgree: one selector semantics everywhere: for the same query and resources, the definition
// (LabelQuery.Matches), List on the in-memory state, List through client adapter + server, and the
// runtime cache select the same set; a selector-filtered kind watch bootstraps exactly that set.
func H_SitesAgree() {
	ctx, cancel := context.WithCancel(context.Background())
	defer cancel()
	tres.RegisterProto()
	backend := namespaced.NewState(inmem.Build)
	st := state.WrapCore(backend)
	remote := state.WrapCore(c11.NewRemote(backend))
	rc := cache.NewResourceCache([]options.CachedResource{{Namespace: tres.NS, Type: tres.TypeA}})
	var res []*tres.A
	for _, id := range ids {
		labelled := verif.Choose("hasKey", 2) == 1
		r := mk(id, labelled, verif.Atom("labelValue"))
		verif.Assert(st.Create(ctx, r) == nil, "create")
		rc.CacheAppend(r.DeepCopy())
		res = append(res, r)
	}
	rc.MarkBootstrapped(tres.NS, tres.TypeA)
	term := symTerm()
	qs := resource.LabelQueries{{Terms: []resource.LabelTerm{term}}}
	// queries are OR-ed: optionally a second query - one without terms (matches everything) or "key absent"
	switch verif.Choose("secondQuery", 3) {
	case 1:
		qs = append(qs, resource.LabelQuery{})
		verif.Cover("or with an empty query")
	case 2:
		qs = append(qs, resource.LabelQuery{Terms: []resource.LabelTerm{{Key: "k", Op: resource.LabelOpExists, Invert: true}}})
		verif.Cover("or of two queries")
	}
	var lopts []state.ListOption
	wopts := []state.WatchKindOption{state.WithBootstrapContents(true)}
	for _, q := range qs {
		lopts = append(lopts, state.WithLabelQuery(resource.RawLabelQuery(q)))
		wopts = append(wopts, state.WatchWithLabelQuery(resource.RawLabelQuery(q)))
	}
	direct, err := st.List(ctx, kind(), lopts...)
	verif.Assert(err == nil, "direct list")
	viaRPC, err := remote.List(ctx, kind(), lopts...)
	verif.Assert(err == nil, "remote list")
	cached, err := rc.List(ctx, kind(), lopts...)
	verif.Assert(err == nil, "cached list")
	events := make(chan state.Event, 16)
	verif.Assert(st.WatchKind(ctx, kind(), events, wopts...) == nil, "filtered watch")
	verif.Quiesce()
	boot := map[string]bool{}
	for len(events) > 0 {
		ev := <-events
		if ev.Type == state.Created {
			boot[ev.Resource.Metadata().ID()] = true
		}
	}
	matched := 0
	for _, r := range res {
		want := qs.Matches(*r.Metadata().Labels())
		id := r.Metadata().ID()
		verif.Assert(has(direct, id) == want, "List returns exactly the resources satisfying the selector")
		verif.Assert(has(viaRPC, id) == want, "the selector means the same after translation over gRPC")
		verif.Assert(has(cached, id) == want, "the selector means the same in the runtime cache")
		verif.Assert(boot[id] == want, "a filtered kind watch bootstraps exactly the filtered List")
		if want {
			matched++
		}
	}
	verif.Assert(len(direct.Items) == matched && len(viaRPC.Items) == matched && len(cached.Items) == matched, "no extra items")
	if matched > 0 {
		verif.Cover("some match")
	}
	if matched < len(res) {
		verif.Cover("some filtered out")
	}
}

// H_FilteredWatch: a selector-filtered kind watch is a change log of the filtered set:
// an update moving a resource into the selector appears as Created, out of it as Destroyed.
func H_FilteredWatch() {
	ctx, cancel := context.WithCancel(context.Background())
	defer cancel()
	st := state.WrapCore(namespaced.NewState(inmem.Build))
	term := symTerm()
	q := resource.LabelQuery{Terms: []resource.LabelTerm{term}}
	events := make(chan state.Event, 16)
	verif.Assert(st.WatchKind(ctx, kind(), events, state.WatchWithLabelQuery(resource.RawLabelQuery(q))) == nil, "filtered watch")
	oldHas, newHas := verif.Choose("oldHasKey", 2) == 1, verif.Choose("newHasKey", 2) == 1
	r := mk("a", oldHas, verif.Atom("oldValue"))
	oldIn := q.Matches(*r.Metadata().Labels())
	verif.Assert(st.Create(ctx, r) == nil, "create")
	verif.Quiesce()
	got := 0
	for len(events) > 0 {
		ev := <-events
		verif.Assert(ev.Type == state.Created && oldIn, "creation is reported iff the new resource satisfies the selector")
		got++
	}
	verif.Assert((got == 1) == oldIn, "exactly one Created event for a matching creation, none otherwise")
	// update labels
	if newHas {
		r.Metadata().Labels().Set("k", verif.Atom("newValue"))
	} else {
		r.Metadata().Labels().Delete("k")
	}
	r.TypedSpec().N++
	newIn := q.Matches(*r.Metadata().Labels())
	verif.Assert(st.Update(ctx, r) == nil, "update")
	verif.Quiesce()
	n := 0
	for len(events) > 0 {
		ev := <-events
		n++
		switch {
		case !oldIn && newIn:
			verif.Assert(ev.Type == state.Created, "a resource updated into the selector appears as Created")
			verif.Cover("moved in")
		case oldIn && !newIn:
			verif.Assert(ev.Type == state.Destroyed, "a resource updated out of the selector appears as Destroyed")
			verif.Cover("moved out")
		case oldIn && newIn:
			verif.Assert(ev.Type == state.Updated, "an update inside the selector stays an Updated event")
		default:
			verif.Fail("an update outside the selector must not be delivered")
		}
	}
	verif.Assert((n == 1) == (oldIn || newIn), "exactly one event iff the resource is in the filtered set before or after")
}

// H_SitesAgreeNumeric: the numeric comparison operators (with unit suffixes and inversion) mean the
// same in the definition, in List on the in-memory state and after translation over gRPC.
func H_SitesAgreeNumeric() {
	ctx := context.Background()
	tres.RegisterProto()
	backend := namespaced.NewState(inmem.Build)
	st := state.WrapCore(backend)
	remote := state.WrapCore(c11.NewRemote(backend))
	r := tres.NewA(tres.NS, "a", "s")
	switch verif.Choose("labelValue", 4) {
	case 0:
		r.Metadata().Labels().Set("k", "5")
	case 1:
		r.Metadata().Labels().Set("k", "10")
	case 2:
		r.Metadata().Labels().Set("k", "1Ki")
	} // 3: label absent
	verif.Assert(st.Create(ctx, r) == nil, "create")
	term := resource.LabelTerm{Key: "k", Invert: verif.Choose("invert", 2) == 1, Value: []string{[]string{"10", "1k", "abc"}[verif.Choose("operand", 3)]}}
	term.Op = []resource.LabelOp{resource.LabelOpLTNumeric, resource.LabelOpLTENumeric}[verif.Choose("op", 2)]
	q := resource.LabelQuery{Terms: []resource.LabelTerm{term}}
	want := q.Matches(*r.Metadata().Labels())
	direct, err := st.List(ctx, kind(), state.WithLabelQuery(resource.RawLabelQuery(q)))
	verif.Assert(err == nil && has(direct, "a") == want, "List applies the numeric selector as defined")
	viaRPC, err := remote.List(ctx, kind(), state.WithLabelQuery(resource.RawLabelQuery(q)))
	verif.Assert(err == nil && has(viaRPC, "a") == want, "the numeric selector means the same after translation over gRPC")
	if want {
		verif.Cover("numeric match")
	} else {
		verif.Cover("numeric no match")
	}
}
