package zzverif_c06

import (
	"context"
	"errors"

	"github.com/siderolabs/gen/xerrors"
	"go.uber.org/zap"

	"github.com/cosi-project/runtime/pkg/controller"
	"github.com/cosi-project/runtime/pkg/controller/generic/cleanup"
	"github.com/cosi-project/runtime/pkg/controller/runtime/internal/adapter"
	"github.com/cosi-project/runtime/pkg/controller/runtime/internal/cache"
	"github.com/cosi-project/runtime/pkg/controller/runtime/internal/dependency"
	"github.com/cosi-project/runtime/pkg/controller/runtime/internal/rruntime"
	"github.com/cosi-project/runtime/pkg/controller/runtime/options"
	"github.com/cosi-project/runtime/pkg/resource"
	"github.com/cosi-project/runtime/pkg/state"
	"github.com/cosi-project/runtime/pkg/state/impl/inmem"
	"github.com/cosi-project/runtime/pkg/state/impl/namespaced"
	"github.com/cosi-project/runtime/zzverif/tres"
	"github.com/cosi-project/runtime/zzverif/verif"
)

const cleanupName = "cleanup"

type cleanupHandler struct {
	behaviour int   // 0 ok, 1 error, 2 skip
	succeeded []int // len(core.Log) at each successful handler call
	core      *tres.Interpose
}

func (h *cleanupHandler) FinalizerRemoval(context.Context, controller.Runtime, *zap.Logger, *tres.A) error {
	switch h.behaviour {
	case 1:
		return errors.New("dependent outputs still present")
	case 2:
		return xerrors.NewTaggedf[cleanup.SkipReconcileTag]("not yet")
	}
	h.succeeded = append(h.succeeded, len(h.core.Log))
	return nil
}
func (h *cleanupHandler) Inputs() []controller.Input   { return nil }
func (h *cleanupHandler) Outputs() []controller.Output { return nil }

// H_Cleanup (C07): a cleanup controller releases its finalizer on a torn-down input only
// after its removal handler succeeded in the same reconcile, and puts it on running inputs.
func H_Cleanup() {
	steps := 2
	if verif.Tier() == "thorough" {
		steps = 3
	}
	ctx, cancel := context.WithCancel(context.Background())
	defer cancel()
	core := &tres.Interpose{Inner: namespaced.NewState(inmem.Build)}
	st := state.WrapCore(core)
	h := &cleanupHandler{core: core}
	ctrl := cleanup.NewController(cleanup.Settings[*tres.A]{Name: cleanupName, Handler: h})
	db, _ := dependency.NewDatabase()
	opts := options.DefaultOptions()
	opts.MetricsEnabled = false
	ad, err := rruntime.NewAdapter(ctrl, adapter.Options{Logger: zap.NewNop(), State: st, Cache: cache.NewResourceCache(nil), DepDB: db, RuntimeOptions: opts,
		RegisterWatch: func(resource.Namespace, resource.Type) error { return nil }})
	verif.Assert(err == nil, "adapter created")
	go func() {
		for ctx.Err() == nil {
			ctrl.Run(ctx, ad, zap.NewNop()) //nolint:errcheck
		}
	}()
	verif.Quiesce()
	reconcile := func() { ad.QueueReconcile(); verif.Quiesce() }
	n := 1 + verif.Choose("nsteps", steps)
	for k := 0; k < n; k++ {
		core.RunAsEnv(func() {
			op := verif.Int("actorOp")
			verif.Assume(verif.And(op >= 0, op <= 5))
			switch op {
			case 0:
				st.Create(ctx, tres.NewA(tres.NS, inID, "c")) //nolint:errcheck
			case 1:
				st.Teardown(ctx, inPtr()) //nolint:errcheck
			case 2:
				st.Destroy(ctx, inPtr()) //nolint:errcheck
			case 3:
				h.behaviour = 1
			case 4:
				h.behaviour = 2
			case 5:
				h.behaviour = 0
			}
		})
		if verif.Choose("reconcile now", 2) == 1 {
			reconcile()
		}
	}
	h.behaviour = 0
	reconcile()
	reconcile()
	// monitors over the write log
	for i, wr := range core.Log {
		if wr.Actor != "caller" || wr.Before == nil || wr.After == nil {
			continue
		}
		had, has := wr.Before.Metadata().Finalizers().Has(cleanupName), wr.After.Metadata().Finalizers().Has(cleanupName)
		if had && !has {
			verif.Cover("finalizer released")
			verif.Assert(wr.Before.Metadata().Phase() == resource.PhaseTearingDown, "the finalizer is released only on a torn-down input")
			ok := false
			for _, at := range h.succeeded {
				if at == i { // the successful handler call immediately precedes this write (same reconcile, no write in between)
					ok = true
				}
			}
			verif.Assert(ok, "a cleanup controller releases its finalizer only after its removal handler succeeded")
		}
		if !had && has {
			verif.Cover("finalizer added")
			verif.Assert(wr.Before.Metadata().Phase() == resource.PhaseRunning, "the finalizer is put on running inputs only")
		}
	}
	if in, gerr := st.Get(ctx, inPtr()); gerr == nil {
		if in.Metadata().Phase() == resource.PhaseRunning {
			verif.Assert(in.Metadata().Finalizers().Has(cleanupName), "a running input carries the cleanup finalizer once the system is quiet")
		} else {
			verif.Assert(!in.Metadata().Finalizers().Has(cleanupName), "a torn-down input is released once the handler succeeds")
		}
	}
}

const outID = "o1"

func depPtr() resource.Metadata {
	return resource.NewMetadata(tres.NS, tres.TypeB, outID, resource.VersionUndefined)
}

// H_CleanupOutputs (C07): the cleanup controller with the library's own RemoveOutputs handler and a
// dependent output selected by label: whatever third parties do to the dependent output (finalizers
// added or removed at any store-call boundary inside a reconcile, destruction), the controller's
// finalizer leaves the torn-down input only when no dependent output exists any more.
func H_CleanupOutputs() {
	ctx, cancel := context.WithCancel(context.Background())
	defer cancel()
	core := &tres.Interpose{Inner: namespaced.NewState(inmem.Build)}
	st := state.WrapCore(core)
	handler := cleanup.RemoveOutputs[*tres.B](func(in *tres.A) state.ListOption {
		return state.WithLabelQuery(resource.LabelEqual("parent", in.Metadata().ID()))
	})
	ctrl := cleanup.NewController(cleanup.Settings[*tres.A]{Name: cleanupName, Handler: handler})
	db, _ := dependency.NewDatabase()
	opts := options.DefaultOptions()
	opts.MetricsEnabled = false
	ad, err := rruntime.NewAdapter(ctrl, adapter.Options{Logger: zap.NewNop(), State: st, Cache: cache.NewResourceCache(nil), DepDB: db, RuntimeOptions: opts,
		RegisterWatch: func(resource.Namespace, resource.Type) error { return nil }})
	verif.Assert(err == nil, "adapter created")
	go func() {
		for ctx.Err() == nil {
			ctrl.Run(ctx, ad, zap.NewNop()) //nolint:errcheck
		}
	}()
	verif.Quiesce()
	reconcile := func() { ad.QueueReconcile(); verif.Quiesce() }
	// pre-state: a running input that carries the controller's finalizer, and its dependent output
	core.RunAsEnv(func() {
		verif.Assert(st.Create(ctx, tres.NewA(tres.NS, inID, "c")) == nil, "input created")
	})
	reconcile()
	core.RunAsEnv(func() {
		in, gerr := st.Get(ctx, inPtr())
		verif.Assert(gerr == nil && in.Metadata().Finalizers().Has(cleanupName), "a running input carries the cleanup finalizer")
		out := tres.NewB(tres.NS, outID, "dep")
		out.Metadata().Labels().Set("parent", inID)
		if verif.Choose("outputHeldByThirdParty", 2) == 1 {
			out.Metadata().Finalizers().Add("ext")
		}
		verif.Assert(st.Create(ctx, out) == nil, "dependent output created")
	})
	third := func() {
		switch verif.Choose("thirdPartyOp", 3) {
		case 0:
			st.AddFinalizer(ctx, depPtr(), "ext") //nolint:errcheck
		case 1:
			st.RemoveFinalizer(ctx, depPtr(), "ext") //nolint:errcheck
		case 2:
			st.Destroy(ctx, depPtr()) //nolint:errcheck
		}
	}
	budget := 1
	core.Env = func(string, resource.Pointer) {
		if budget > 0 && verif.Choose("interfere here", 2) == 1 {
			budget--
			third()
			verif.Cover("third party acts inside a reconcile")
		}
	}
	steps := 2
	if verif.Tier() == "thorough" {
		steps = 3
	}
	for k, n := 0, 1+verif.Choose("nsteps", steps); k < n; k++ {
		core.RunAsEnv(func() {
			if verif.Choose("actor", 2) == 0 {
				st.Teardown(ctx, inPtr()) //nolint:errcheck
			} else {
				third()
			}
		})
		if verif.Choose("reconcile now", 2) == 1 {
			reconcile()
		}
	}
	core.Env = nil
	reconcile()
	// monitor over the write log: the release of the input happens only when no dependent output exists
	outExists := false
	for _, wr := range core.Log {
		if wr.After != nil && wr.After.Metadata().Type() == tres.TypeB || wr.Before != nil && wr.Before.Metadata().Type() == tres.TypeB {
			outExists = wr.Kind != "destroy"
			continue
		}
		if wr.Before == nil || wr.After == nil {
			continue
		}
		if wr.Before.Metadata().Finalizers().Has(cleanupName) && !wr.After.Metadata().Finalizers().Has(cleanupName) {
			verif.Cover("input released")
			verif.Assert(wr.Actor == "caller" && wr.Before.Metadata().Phase() == resource.PhaseTearingDown, "only the controller releases its finalizer, and only on a torn-down input")
			verif.Assert(!outExists, "the cleanup finalizer is released only after the dependent outputs are gone")
		}
	}
	// liveness at quiescence: once third parties let go, a torn-down input is cleaned up and released
	core.RunAsEnv(func() { st.RemoveFinalizer(ctx, depPtr(), "ext") }) //nolint:errcheck
	reconcile()
	reconcile()
	if in, gerr := st.Get(ctx, inPtr()); gerr == nil && in.Metadata().Phase() == resource.PhaseTearingDown {
		_, oerr := st.Get(ctx, depPtr())
		verif.Assert(state.IsNotFoundError(oerr), "the dependent output of a torn-down input is removed once nobody holds it")
		verif.Assert(!in.Metadata().Finalizers().Has(cleanupName), "and then the input is released")
		verif.Cover("torn-down input cleaned up")
	}
}
