package zzverif_c06

import (
	"context"
	"errors"

	"github.com/siderolabs/gen/xerrors"
	"go.uber.org/zap"

	"github.com/cosi-project/runtime/pkg/controller"
	"github.com/cosi-project/runtime/pkg/controller/generic/cleanup"
	"github.com/cosi-project/runtime/pkg/controller/runtime/internal/adapter"
	"github.com/cosi-project/runtime/pkg/controller/runtime/internal/cache"
	"github.com/cosi-project/runtime/pkg/controller/runtime/internal/dependency"
	"github.com/cosi-project/runtime/pkg/controller/runtime/internal/rruntime"
	"github.com/cosi-project/runtime/pkg/controller/runtime/options"
	"github.com/cosi-project/runtime/pkg/resource"
	"github.com/cosi-project/runtime/pkg/state"
	"github.com/cosi-project/runtime/pkg/state/impl/inmem"
	"github.com/cosi-project/runtime/pkg/state/impl/namespaced"
	"github.com/cosi-project/runtime/zzverif/tres"
	"github.com/cosi-project/runtime/zzverif/verif"
)

const cleanupName = "cleanup"

type cleanupHandler struct {
	behaviour int   // 0 ok, 1 error, 2 skip
	succeeded []int // len(core.Log) at each successful handler call
	core      *tres.Interpose
}

func (h *cleanupHandler) FinalizerRemoval(context.Context, controller.Runtime, *zap.Logger, *tres.A) error {
	switch h.behaviour {
	case 1:
		return errors.New("dependent outputs still present")
	case 2:
		return xerrors.NewTaggedf[cleanup.SkipReconcileTag]("not yet")
	}
	h.succeeded = append(h.succeeded, len(h.core.Log))
	return nil
}
func (h *cleanupHandler) Inputs() []controller.Input   { return nil }
func (h *cleanupHandler) Outputs() []controller.Output { return nil }

// H_Cleanup (C07): a cleanup controller releases its finalizer on a torn-down input only
// after its removal handler succeeded in the same reconcile, and puts it on running inputs.
func H_Cleanup() {
	steps := 2
	if verif.Tier() == "thorough" {
		steps = 3
	}
	ctx, cancel := context.WithCancel(context.Background())
	defer cancel()
	core := &tres.Interpose{Inner: namespaced.NewState(inmem.Build)}
	st := state.WrapCore(core)
	h := &cleanupHandler{core: core}
	ctrl := cleanup.NewController(cleanup.Settings[*tres.A]{Name: cleanupName, Handler: h})
	db, _ := dependency.NewDatabase()
	opts := options.DefaultOptions()
	opts.MetricsEnabled = false
	ad, err := rruntime.NewAdapter(ctrl, adapter.Options{Logger: zap.NewNop(), State: st, Cache: cache.NewResourceCache(nil), DepDB: db, RuntimeOptions: opts,
		RegisterWatch: func(resource.Namespace, resource.Type) error { return nil }})
	verif.Assert(err == nil, "adapter created")
	go func() {
		for ctx.Err() == nil {
			ctrl.Run(ctx, ad, zap.NewNop()) //nolint:errcheck
		}
	}()
	verif.Quiesce()
	reconcile := func() { ad.QueueReconcile(); verif.Quiesce() }
	n := 1 + verif.Choose("nsteps", steps)
	for k := 0; k < n; k++ {
		core.RunAsEnv(func() {
			op := verif.Int("actorOp")
			verif.Assume(verif.And(op >= 0, op <= 5))
			switch op {
			case 0:
				st.Create(ctx, tres.NewA(tres.NS, inID, "c")) //nolint:errcheck
			case 1:
				st.Teardown(ctx, inPtr()) //nolint:errcheck
			case 2:
				st.Destroy(ctx, inPtr()) //nolint:errcheck
			case 3:
				h.behaviour = 1
			case 4:
				h.behaviour = 2
			case 5:
				h.behaviour = 0
			}
		})
		if verif.Choose("reconcile now", 2) == 1 {
			reconcile()
		}
	}
	h.behaviour = 0
	reconcile()
	reconcile()
	// monitors over the write log
	for i, wr := range core.Log {
		if wr.Actor != "caller" || wr.Before == nil || wr.After == nil {
			continue
		}
		had, has := wr.Before.Metadata().Finalizers().Has(cleanupName), wr.After.Metadata().Finalizers().Has(cleanupName)
		if had && !has {
			verif.Cover("finalizer released")
			verif.Assert(wr.Before.Metadata().Phase() == resource.PhaseTearingDown, "the finalizer is released only on a torn-down input")
			ok := false
			for _, at := range h.succeeded {
				if at == i { // the successful handler call immediately precedes this write (same reconcile, no write in between)
					ok = true
				}
			}
			verif.Assert(ok, "a cleanup controller releases its finalizer only after its removal handler succeeded")
		}
		if !had && has {
			verif.Cover("finalizer added")
			verif.Assert(wr.Before.Metadata().Phase() == resource.PhaseRunning, "the finalizer is put on running inputs only")
		}
	}
	if in, gerr := st.Get(ctx, inPtr()); gerr == nil {
		if in.Metadata().Phase() == resource.PhaseRunning {
			verif.Assert(in.Metadata().Finalizers().Has(cleanupName), "a running input carries the cleanup finalizer once the system is quiet")
		} else {
			verif.Assert(!in.Metadata().Finalizers().Has(cleanupName), "a torn-down input is released once the handler succeeds")
		}
	}
}
