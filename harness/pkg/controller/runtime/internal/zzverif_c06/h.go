package zzverif_c06

import (
	"context"
	"errors"

	"github.com/siderolabs/gen/xerrors"
	"go.uber.org/zap"

	"github.com/cosi-project/runtime/pkg/controller"
	"github.com/cosi-project/runtime/pkg/controller/generic/qtransform"
	"github.com/cosi-project/runtime/pkg/controller/generic/transform"
	"github.com/cosi-project/runtime/pkg/controller/runtime/internal/adapter"
	"github.com/cosi-project/runtime/pkg/controller/runtime/internal/cache"
	"github.com/cosi-project/runtime/pkg/controller/runtime/internal/dependency"
	"github.com/cosi-project/runtime/pkg/controller/runtime/internal/qruntime"
	"github.com/cosi-project/runtime/pkg/controller/runtime/internal/reduced"
	"github.com/cosi-project/runtime/pkg/controller/runtime/internal/rruntime"
	"github.com/cosi-project/runtime/pkg/controller/runtime/options"
	"github.com/cosi-project/runtime/pkg/resource"
	"github.com/cosi-project/runtime/pkg/state"
	"github.com/cosi-project/runtime/pkg/state/impl/inmem"
	"github.com/cosi-project/runtime/pkg/state/impl/namespaced"
	"github.com/cosi-project/runtime/zzverif/tres"
	"github.com/cosi-project/runtime/zzverif/verif"
)

const (
	ctrlName = "Q"
	inID     = "x"
)

func inPtr() resource.Metadata {
	return resource.NewMetadata(tres.NS, tres.TypeA, inID, resource.VersionUndefined)
}
func outPtr() resource.Metadata {
	return resource.NewMetadata(tres.NS, tres.TypeB, inID, resource.VersionUndefined)
}

type world struct {
	core      *tres.Interpose
	st        state.State // actors use this handle (writes are logged as "env" while inside the controller)
	ad        *qruntime.Adapter
	ctrl      *qtransform.QController[*tres.A, *tres.B]
	behaviour int // outcome of the NEXT transform invocations: 0 ok, 1 transient error, 2 skip tag, 3 destroy-output tag
	ctx       context.Context
}

func newWorld() *world {
	w := &world{ctx: context.Background()}
	w.core = &tres.Interpose{Inner: namespaced.NewState(inmem.Build)}
	w.st = state.WrapCore(w.core)
	w.ctrl = qtransform.NewQController(qtransform.Settings[*tres.A, *tres.B]{
		Name:              ctrlName,
		MapMetadataFunc:   func(in *tres.A) *tres.B { return tres.NewB(tres.NS, in.Metadata().ID(), "") },
		UnmapMetadataFunc: func(out *tres.B) *tres.A { return tres.NewA(tres.NS, out.Metadata().ID(), "") },
		TransformFunc: func(_ context.Context, _ controller.Reader, _ *zap.Logger, in *tres.A, out *tres.B) error {
			switch w.behaviour {
			case 1:
				return errors.New("transient transform error")
			case 2:
				return xerrors.NewTaggedf[qtransform.SkipReconcileTag]("skip")
			case 3:
				return xerrors.NewTaggedf[qtransform.DestroyOutputTag]("destroy output")
			}
			out.TypedSpec().S = in.TypedSpec().S
			out.TypedSpec().N = in.TypedSpec().N
			return nil
		},
	})
	db, _ := dependency.NewDatabase()
	opts := options.DefaultOptions()
	opts.MetricsEnabled = false
	var err error
	w.ad, err = qruntime.NewAdapter(w.ctrl, adapter.Options{Logger: zap.NewNop(), State: w.st, Cache: cache.NewResourceCache(nil), DepDB: db, RuntimeOptions: opts,
		RegisterWatch: func(resource.Namespace, resource.Type) error { return nil }})
	verif.Assert(err == nil, "adapter created")
	return w
}

// reconcile runs one reconcile of the input plus the destroy-ready mapping of the output, as the runtime would after a notification.
func (w *world) reconcile() {
	// everything the controller writes is attributed to "caller"; actors write as "env" through Env or directly below
	_ = w.ctrl.Reconcile(w.ctx, zap.NewNop(), w.ad, inPtr())
	if out, err := w.st.Get(w.ctx, outPtr()); err == nil {
		red := reduced.NewMetadata(out.Metadata())
		if !reduced.FilterDestroyReady(&red) {
			return // the output is a destroy-ready mapped input: only that state is notified
		}
		if ptrs, merr := w.ctrl.MapInput(w.ctx, zap.NewNop(), w.ad, qruntime.NewQItem(out.Metadata(), qruntime.QJobMap)); merr == nil {
			for range ptrs {
				_ = w.ctrl.Reconcile(w.ctx, zap.NewNop(), w.ad, inPtr())
			}
		}
	}
}

func (w *world) get(p resource.Metadata) resource.Resource {
	r, err := w.st.Get(w.ctx, p)
	if err != nil {
		return nil
	}
	return r
}

// actorOp: one operation of an external party (writes logged as env).
func (w *world) actorOp(content string) {
	core := w.core
	asEnv := func(f func()) {
		// mark as environment: the Interpose attributes writes made inside Env callbacks to "env"
		saved := core.Env
		core.Env = nil
		core.RunAsEnv(f)
		core.Env = saved
	}
	asEnv(func() {
		op := verif.Int("actorOp") // decided by the solver where the script branches on it
		verif.Assume(verif.And(op >= 0, op <= 8))
		switch op {
		case 0:
			w.st.Create(w.ctx, tres.NewA(tres.NS, inID, content)) //nolint:errcheck
		case 1:
			if r := w.get(inPtr()); r != nil {
				r.(*tres.A).TypedSpec().S = content
				w.st.Update(w.ctx, r, state.WithExpectedPhaseAny()) //nolint:errcheck
			}
		case 2:
			w.st.Teardown(w.ctx, inPtr()) //nolint:errcheck
		case 3:
			w.st.Destroy(w.ctx, inPtr()) //nolint:errcheck
		case 4:
			w.st.AddFinalizer(w.ctx, outPtr(), "foreign") //nolint:errcheck
		case 5:
			w.st.RemoveFinalizer(w.ctx, outPtr(), "foreign") //nolint:errcheck
		case 6:
			w.behaviour = 1 // transform starts failing
		case 7:
			w.behaviour = 2 // transform asks to skip
		case 8:
			w.behaviour = 3 // transform asks to destroy the output
		}
	})
}

// monitors over the totally ordered log of committed writes (C07)
func (w *world) monitors() {
	var in, out resource.Resource
	for _, wr := range w.core.Log {
		isIn := (wr.After != nil && wr.After.Metadata().Type() == tres.TypeA) || (wr.Before != nil && wr.Before.Metadata().Type() == tres.TypeA)
		if isIn {
			if wr.Kind == "destroy" {
				verif.Assert(out == nil, "an input never disappears while an output derived from it still exists")
			}
			if wr.After != nil && wr.Before != nil && wr.Before.Metadata().Finalizers().Has(ctrlName) && !wr.After.Metadata().Finalizers().Has(ctrlName) {
				verif.Assert(out == nil, "the controller's finalizer stays on the input until after the output has been destroyed")
				verif.Cover("input finalizer released")
			}
			in = wr.After
		} else {
			if wr.Kind == "create" {
				verif.Assert(in != nil && in.Metadata().Finalizers().Has(ctrlName), "the controller's finalizer is on the input before the output first exists")
				verif.Cover("output created")
			}
			if wr.Kind == "destroy" {
				verif.Assert(wr.Before.Metadata().Phase() == resource.PhaseTearingDown && wr.Before.Metadata().Finalizers().Empty(), "an output is destroyed only after being marked tearing-down and with an empty finalizer set")
				verif.Cover("output destroyed")
			}
			out = wr.After
		}
	}
}

// H_QTransform (C06 + C07): any history of <=3 (quick) / <=4 (thorough) external operations interleaved
// with reconciles (and one interference inside a reconcile), then reconcile to quiescence.
func H_QTransform() {
	steps := 2
	if verif.Tier() == "thorough" {
		steps = 3
	}
	w := newWorld()
	budget := 1
	contentSeq := 0
	content := func() string {
		contentSeq++
		return []string{"c1", "c2", "c3", "c4", "c5", "c6"}[contentSeq%6]
	}
	w.core.Env = func(op string, p resource.Pointer) {
		if budget > 0 && verif.Choose("interfere inside reconcile", 2) == 1 {
			budget--
			w.actorOp(content())
			verif.Cover("interference inside reconcile")
		}
	}
	n := 1 + verif.Choose("nsteps", steps)
	for k := 0; k < n; k++ {
		w.actorOp(content())
		if verif.Choose("reconcile now", 2) == 1 {
			w.reconcile()
		}
	}
	// faults cease; reconcile until nothing changes
	w.core.Env = nil
	w.behaviour = 0
	quiet := false
	for round := 0; round < 5 && !quiet; round++ {
		before := len(w.core.Log)
		w.reconcile()
		quiet = len(w.core.Log) == before
	}
	verif.Assert(quiet, "reconciling converges: a full round without a write is reached")
	w.monitors()
	in, out := w.get(inPtr()), w.get(outPtr())
	switch {
	case in != nil && in.Metadata().Phase() == resource.PhaseRunning:
		verif.Cover("input running")
		if out != nil && out.Metadata().Phase() == resource.PhaseTearingDown {
			verif.Assert(!out.Metadata().Finalizers().Empty(), "a tearing-down output of a running input is only kept by foreign finalizers")
		} else {
			verif.Assert(out != nil, "a running input has its output")
			verif.Assert(out.Metadata().Owner() == ctrlName, "the output is owned by the controller")
			verif.Assert(tres.SpecOf(out).S == tres.SpecOf(in).S, "the output carries the latest transformed content")
		}
	case in != nil:
		verif.Cover("input tearing down")
		if out == nil {
			verif.Assert(!in.Metadata().Finalizers().Has(ctrlName), "a torn-down input whose output is gone no longer carries the controller's finalizer")
		} else {
			verif.Assert(!out.Metadata().Finalizers().Empty(), "an output of a torn-down input remains only while held by foreign finalizers")
		}
	default:
		verif.Cover("input absent")
		verif.Assert(out == nil || !out.Metadata().Finalizers().Empty() || out.Metadata().Owner() != ctrlName, "no orphaned output remains (except ones held by foreign finalizers)")
	}
}

// ---- the plain (non-queue) Transform controller ----

type tworld struct {
	core      *tres.Interpose
	st        state.State
	ad        *rruntime.Adapter
	ctrl      *transform.Controller[*tres.A, *tres.B]
	behaviour int // 0 ok, 1 transform error, 2 skip tag, 3 finalizer-removal hook fails
	ctx       context.Context
	cancel    context.CancelFunc
	cycles    int
}

func newTWorld() *tworld {
	w := &tworld{}
	w.ctx, w.cancel = context.WithCancel(context.Background())
	w.core = &tres.Interpose{Inner: namespaced.NewState(inmem.Build)}
	w.st = state.WrapCore(w.core)
	w.ctrl = transform.NewController(transform.Settings[*tres.A, *tres.B]{
		Name:            ctrlName,
		MapMetadataFunc: func(in *tres.A) *tres.B { return tres.NewB(tres.NS, in.Metadata().ID(), "") },
		TransformFunc: func(_ context.Context, _ controller.Reader, _ *zap.Logger, in *tres.A, out *tres.B) error {
			switch w.behaviour {
			case 1:
				return errors.New("transient transform error")
			case 2:
				return xerrors.NewTaggedf[transform.SkipReconcileTag]("skip")
			}
			out.TypedSpec().S = in.TypedSpec().S
			return nil
		},
		FinalizerRemovalFunc: func(context.Context, controller.Reader, *zap.Logger, *tres.A) error {
			if w.behaviour == 3 {
				return errors.New("removal hook failed")
			}
			return nil
		},
	}, transform.WithInputFinalizers())
	db, _ := dependency.NewDatabase()
	opts := options.DefaultOptions()
	opts.MetricsEnabled = false
	var err error
	w.ad, err = rruntime.NewAdapter(w.ctrl, adapter.Options{Logger: zap.NewNop(), State: w.st, Cache: cache.NewResourceCache(nil), DepDB: db, RuntimeOptions: opts,
		RegisterWatch: func(resource.Namespace, resource.Type) error { return nil }})
	verif.Assert(err == nil, "adapter created")
	// the runtime restarts a failed Run; the next reconcile event is the harness's
	go func() {
		for w.ctx.Err() == nil {
			w.ctrl.Run(w.ctx, w.ad, zap.NewNop()) //nolint:errcheck
			w.cycles++
		}
	}()
	verif.Quiesce() // consume the initial reconcile event
	return w
}

func (w *tworld) reconcile() {
	w.ad.QueueReconcile()
	verif.Quiesce()
}

func (w *tworld) get(p resource.Metadata) resource.Resource {
	r, err := w.st.Get(w.ctx, p)
	if err != nil {
		return nil
	}
	return r
}

func (w *tworld) actorOp(content string) {
	w.core.RunAsEnv(func() {
		op := verif.Int("actorOp")
		verif.Assume(verif.And(op >= 0, op <= 8))
		switch op {
		case 0:
			w.st.Create(w.ctx, tres.NewA(tres.NS, inID, content)) //nolint:errcheck
		case 1:
			if r := w.get(inPtr()); r != nil {
				r.(*tres.A).TypedSpec().S = content
				w.st.Update(w.ctx, r, state.WithExpectedPhaseAny()) //nolint:errcheck
			}
		case 2:
			w.st.Teardown(w.ctx, inPtr()) //nolint:errcheck
		case 3:
			w.st.Destroy(w.ctx, inPtr()) //nolint:errcheck
		case 4:
			w.st.AddFinalizer(w.ctx, outPtr(), "foreign") //nolint:errcheck
		case 5:
			w.st.RemoveFinalizer(w.ctx, outPtr(), "foreign") //nolint:errcheck
		case 6:
			w.behaviour = 1
		case 7:
			w.behaviour = 2
		case 8:
			w.behaviour = 3
		}
	})
}

// H_Transform (C06 + C07): the plain Transform controller with input finalizers.
func H_Transform() {
	steps := 2 // both tiers; the thorough tier deepens the delay bound (3 steps: > 600 000 paths)
	w := newTWorld()
	defer w.cancel()
	budget := 1
	seq := 0
	content := func() string { seq++; return []string{"c1", "c2", "c3", "c4", "c5", "c6"}[seq%6] }
	w.core.Env = func(op string, p resource.Pointer) {
		if budget > 0 && verif.Choose("interfere inside reconcile", 2) == 1 {
			budget--
			saved := w.core.Env
			w.core.Env = nil
			w.actorOp(content())
			w.core.Env = saved
			verif.Cover("interference inside reconcile")
		}
	}
	n := 1 + verif.Choose("nsteps", steps)
	for k := 0; k < n; k++ {
		saved := w.core.Env
		w.core.Env = nil
		w.actorOp(content())
		w.core.Env = saved
		if verif.Choose("reconcile now", 2) == 1 {
			w.reconcile()
		}
	}
	w.core.Env = nil
	w.behaviour = 0
	quiet := false
	for round := 0; round < 5 && !quiet; round++ {
		before := len(w.core.Log)
		w.reconcile()
		quiet = len(w.core.Log) == before
	}
	verif.Assert(quiet, "reconciling converges: a full cycle without a write is reached")
	mw := &world{core: w.core}
	mw.monitors()
	in, out := w.get(inPtr()), w.get(outPtr())
	switch {
	case in != nil && in.Metadata().Phase() == resource.PhaseRunning:
		verif.Cover("input running")
		if out != nil && out.Metadata().Phase() == resource.PhaseTearingDown {
			verif.Assert(!out.Metadata().Finalizers().Empty(), "a tearing-down output of a running input is only kept by foreign finalizers")
		} else {
			verif.Assert(out != nil && out.Metadata().Owner() == ctrlName, "a running input has its output, owned by the controller")
			verif.Assert(tres.SpecOf(out).S == tres.SpecOf(in).S, "the output carries the latest transformed content")
		}
	case in != nil:
		verif.Cover("input tearing down")
		if out == nil {
			verif.Assert(!in.Metadata().Finalizers().Has(ctrlName), "a torn-down input whose output is gone no longer carries the controller's finalizer")
		} else {
			verif.Assert(!out.Metadata().Finalizers().Empty(), "an output of a torn-down input remains only while held by foreign finalizers")
		}
	default:
		verif.Cover("input absent")
		verif.Assert(out == nil || !out.Metadata().Finalizers().Empty(), "no orphaned output remains (except ones held by foreign finalizers)")
	}
}
