package zzverif_c06

import (
	"context"

	"github.com/siderolabs/gen/optional"
	"go.uber.org/zap"

	"github.com/cosi-project/runtime/pkg/controller/generic/destroy"
	"github.com/cosi-project/runtime/pkg/controller/runtime/internal/adapter"
	"github.com/cosi-project/runtime/pkg/controller/runtime/internal/cache"
	"github.com/cosi-project/runtime/pkg/controller/runtime/internal/dependency"
	"github.com/cosi-project/runtime/pkg/controller/runtime/internal/qruntime"
	"github.com/cosi-project/runtime/pkg/controller/runtime/options"
	"github.com/cosi-project/runtime/pkg/resource"
	"github.com/cosi-project/runtime/pkg/state"
	"github.com/cosi-project/runtime/pkg/state/impl/inmem"
	"github.com/cosi-project/runtime/pkg/state/impl/namespaced"
	"github.com/cosi-project/runtime/zzverif/tres"
	"github.com/cosi-project/runtime/zzverif/verif"
)

// H_DestroyController (C06/C07): the generic destroy controller removes exactly the resources that
// are tearing down, unowned and free of finalizers - never a running one, never an owned one, never
// one that still carries a finalizer - for any state of the resource and with a third-party
// operation injected at any store-call boundary of the reconcile.
func H_DestroyController() {
	ctx := context.Background()
	core := &tres.Interpose{Inner: namespaced.NewState(inmem.Build)}
	st := state.WrapCore(core)
	ctrl := destroy.NewController[*tres.A](optional.None[uint]())
	db, _ := dependency.NewDatabase()
	opts := options.DefaultOptions()
	opts.MetricsEnabled = false
	ad, err := qruntime.NewAdapter(ctrl, adapter.Options{Logger: zap.NewNop(), State: st, Cache: cache.NewResourceCache(nil), DepDB: db, RuntimeOptions: opts,
		RegisterWatch: func(resource.Namespace, resource.Type) error { return nil }})
	verif.Assert(err == nil, "adapter created")
	owner := ""
	if verif.Choose("owned", 2) == 1 {
		owner = "somebody"
	}
	core.RunAsEnv(func() {
		if verif.Choose("present", 2) == 1 {
			verif.Assert(st.Create(ctx, tres.NewA(tres.NS, inID, "c"), state.WithCreateOwner(owner)) == nil, "pre-state")
			if verif.Choose("finalizer", 2) == 1 {
				verif.Assert(st.AddFinalizer(ctx, inPtr(), "ext") == nil, "pre-state finalizer")
			}
			if verif.Choose("tearingDown", 2) == 1 {
				_, terr := st.Teardown(ctx, inPtr(), state.WithTeardownOwner(owner))
				verif.Assert(terr == nil, "pre-state teardown")
			}
		}
	})
	budget := 1
	core.Env = func(string, resource.Pointer) {
		if budget > 0 && verif.Choose("interfere here", 2) == 1 {
			budget--
			switch verif.Choose("thirdPartyOp", 3) {
			case 0:
				st.AddFinalizer(ctx, inPtr(), "ext") //nolint:errcheck
			case 1:
				st.RemoveFinalizer(ctx, inPtr(), "ext") //nolint:errcheck
			case 2:
				st.Teardown(ctx, inPtr(), state.WithTeardownOwner(owner)) //nolint:errcheck
			}
		}
	}
	start := len(core.Log)
	_ = ctrl.Reconcile(ctx, zap.NewNop(), ad, inPtr())
	core.Env = nil
	for _, wr := range core.Log[start:] {
		if wr.Actor != "caller" {
			continue
		}
		verif.Assert(wr.Kind == "destroy", "the destroy controller only destroys")
		verif.Assert(wr.Before != nil && wr.Before.Metadata().Phase() == resource.PhaseTearingDown, "only a tearing-down resource is destroyed")
		verif.Assert(wr.Before.Metadata().Owner() == "", "only an unowned resource is destroyed")
		verif.Assert(wr.Before.Metadata().Finalizers().Empty(), "only a resource without finalizers is destroyed")
		verif.Cover("destroyed")
	}
	// liveness: reconciled again with nobody interfering, a destroy-ready unowned resource is gone
	_ = ctrl.Reconcile(ctx, zap.NewNop(), ad, inPtr())
	if r, gerr := st.Get(ctx, inPtr()); gerr == nil {
		verif.Assert(r.Metadata().Phase() == resource.PhaseRunning || r.Metadata().Owner() != "" || !r.Metadata().Finalizers().Empty(), "a tearing-down, unowned, finalizer-free resource does not survive a reconcile")
		verif.Cover("kept")
	}
}
