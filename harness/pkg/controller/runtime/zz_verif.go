package runtime

// In-package harnesses (overlay file, never written into /repo).

import (
	"context"

	"github.com/siderolabs/gen/optional"
	"go.uber.org/zap"

	"github.com/cosi-project/runtime/pkg/controller"
	"github.com/cosi-project/runtime/pkg/controller/runtime/options"
	"github.com/cosi-project/runtime/pkg/resource"
	"github.com/cosi-project/runtime/pkg/state"
	"github.com/cosi-project/runtime/pkg/state/impl/inmem"
	"github.com/cosi-project/runtime/pkg/state/impl/namespaced"
	"github.com/cosi-project/runtime/zzverif/verif"
)

type zzCtrl struct {
	name    string
	inputs  []controller.Input
	outputs []controller.Output
}

func (p *zzCtrl) Name() string                 { return p.name }
func (p *zzCtrl) Inputs() []controller.Input   { return p.inputs }
func (p *zzCtrl) Outputs() []controller.Output { return p.outputs }
func (p *zzCtrl) Run(context.Context, controller.Runtime, *zap.Logger) error {
	return nil
}

type zzQCtrl struct {
	name     string
	settings controller.QSettings
}

func (p *zzQCtrl) Name() string                   { return p.name }
func (p *zzQCtrl) Settings() controller.QSettings { return p.settings }
func (p *zzQCtrl) Reconcile(context.Context, *zap.Logger, controller.QRuntime, resource.Pointer) error {
	return nil
}
func (p *zzQCtrl) MapInput(context.Context, *zap.Logger, controller.QRuntime, controller.ReducedResourceMetadata) ([]resource.Pointer, error) {
	return nil, nil
}

type zzReg struct {
	name    string
	inputs  []controller.Input
	outputs []controller.Output
}

func zzSymInput(tag string) controller.Input {
	k := verif.Int("kind" + tag)
	verif.Assume(verif.And(k >= 0, k <= 5))
	in := controller.Input{Namespace: "ns", Type: verif.Atom("type" + tag), Kind: k}
	if verif.Choose("hasID"+tag, 2) == 1 {
		in.ID = optional.Some(verif.Atom("id" + tag))
	}
	return in
}

// ZZ_RegistrationHistory (C17): for any sequence of RegisterController /
// RegisterQController calls with valid or invalid declarations, exactly the
// accepted registrations are in the graph, and event delivery to the
// dependents the database names never hits a missing controller.
func ZZ_RegistrationHistory() {
	steps := 2 // both tiers: three registrations or two inputs per registration exceed 10^7 paths
	st := state.WrapCore(namespaced.NewState(inmem.Build))
	rt, err := NewRuntime(st, zap.NewNop(), options.WithMetrics(false))
	verif.Assert(err == nil, "runtime created")
	names := []string{"A", "B", "C"}
	var accepted []zzReg
	n := 1 + verif.Choose("nsteps", steps)
	for k := 0; k < n; k++ {
		name := names[verif.Choose("name", len(names))]
		q := verif.Choose("flavour", 2) == 1
		var ins []controller.Input
		maxIn := 2
		nin := verif.Choose("ninputs", maxIn)
		for i := 0; i < nin; i++ {
			ins = append(ins, zzSymInput(""))
		}
		var outs []controller.Output
		if verif.Choose("noutputs", 2) == 1 {
			outs = append(outs, controller.Output{Type: verif.Atom("outType"), Kind: verif.Choose("outKind", 2)})
		}
		// specification of validity
		valid := true
		for _, a := range accepted {
			if a.name == name {
				valid = false
			}
		}
		for i, in := range ins {
			plain := verif.And(in.Kind >= controller.InputWeak, in.Kind <= controller.InputDestroyReady)
			valid = verif.And(valid, verif.Iff(plain, !q))
			for j := 0; j < i; j++ {
				valid = verif.And(valid, verif.Not(verif.And(in.Type == ins[j].Type, in.ID == ins[j].ID)))
			}
		}
		for _, o := range outs {
			for _, a := range accepted {
				for _, ao := range a.outputs {
					valid = verif.And(valid, verif.Not(verif.And(ao.Type == o.Type, verif.Or(ao.Kind == controller.OutputExclusive, o.Kind == controller.OutputExclusive))))
				}
			}
		}
		zeroConc := false
		var rerr error
		if q {
			s := controller.QSettings{Inputs: ins, Outputs: outs}
			if verif.Choose("zeroConcurrency", 2) == 1 {
				s.Concurrency = optional.Some(uint(0))
				zeroConc = true
			}
			rerr = rt.RegisterQController(&zzQCtrl{name: name, settings: s})
		} else {
			rerr = rt.RegisterController(&zzCtrl{name: name, inputs: ins, outputs: outs})
		}
		if zeroConc {
			valid = false
		}
		verif.Assert(verif.Iff(rerr == nil, valid), "registration accepted iff name is new, input kinds fit the flavour, input keys are distinct and outputs do not conflict")
		if rerr == nil {
			verif.Cover("accepted")
			accepted = append(accepted, zzReg{name, ins, outs})
		} else {
			verif.Cover("rejected")
		}
	}
	verif.Case("after history")
	// the graph lists exactly the accepted declarations
	g, gerr := rt.GetDependencyGraph()
	verif.Assert(gerr == nil, "graph exported")
	want := 0
	for _, a := range accepted {
		want += len(a.inputs) + len(a.outputs)
	}
	verif.Assert(len(g.Edges) == want, "a rejected registration has no effect on the graph: it lists exactly the accepted inputs and outputs")
	// delivery of a change of any resource reaches only registered controllers
	typ, id := verif.Atom("qtype"), verif.Atom("qid")
	deps, derr := rt.depDB.GetDependentControllers(controller.Input{Namespace: "ns", Type: typ, ID: optional.Some(id)})
	verif.Assert(derr == nil, "dependents query succeeds")
	for _, d := range deps {
		_, ok := rt.controllers[d]
		verif.Assert(ok, "a rejected registration cannot crash event delivery: every dependent named by the database is a registered controller")
	}
	// a later valid registration of a type claimed only by rejected registrations must succeed
	if len(accepted) < n {
		verif.Cover("history with a rejection")
	}
}

type zzBlockingCtrl struct {
	zzCtrl
	started, stopped bool
}

func (p *zzBlockingCtrl) Run(ctx context.Context, r controller.Runtime, _ *zap.Logger) error {
	p.started = true
	<-ctx.Done()
	p.stopped = true
	return nil
}

// ZZ_WatchErrorStopsRuntime (C16): if an underlying watch fails the runtime stops and
// returns that error; on cancellation Run returns with every goroutine stopped.
func ZZ_WatchErrorStopsRuntime() {
	ctx, cancel := context.WithCancel(context.Background())
	defer cancel()
	st := state.WrapCore(namespaced.NewState(inmem.Build))
	rt, err := NewRuntime(st, zap.NewNop(), options.WithMetrics(false))
	verif.Assert(err == nil, "runtime created")
	c := &zzBlockingCtrl{zzCtrl: zzCtrl{name: "blocker", inputs: []controller.Input{{Namespace: "ns", Type: "A.test", Kind: controller.InputWeak}}}}
	verif.Assert(rt.RegisterController(c) == nil, "controller registered")
	before := verif.NumThreads()
	var runErr error
	done := false
	go func() { runErr = rt.Run(ctx); done = true }()
	verif.Quiesce()
	verif.Assert(c.started && !done, "runtime and controller are running")
	boom := errZZ("watch buffer overrun")
	if verif.Choose("stopBy", 2) == 0 {
		verif.Case("watch error")
		rt.watchCh <- []state.Event{{Type: state.Errored, Error: boom}}
		verif.Quiesce()
		verif.Assert(done, "a failed watch stops the runtime instead of running on stale notifications")
		verif.Assert(runErr != nil && isZZ(runErr, boom), "Run returns the watch error")
		verif.Cover("watch error stops runtime")
	} else {
		verif.Case("cancellation")
		cancel()
		verif.Quiesce()
		verif.Assert(done && runErr == nil, "on cancellation Run returns without error")
		verif.Cover("cancelled")
	}
	verif.Assert(c.stopped, "the controller was stopped before Run returned")
	verif.Assert(verif.NumThreads() == before, "no goroutine of the runtime, its watches or hooks is left behind")
}

type errZZ string

func (e errZZ) Error() string { return string(e) }

func isZZ(err error, target errZZ) bool {
	for err != nil {
		if e, ok := err.(errZZ); ok {
			return e == target
		}
		u, ok := err.(interface{ Unwrap() error })
		if !ok {
			return false
		}
		err = u.Unwrap()
	}
	return false
}
