package inmem

import (
	"context"

	"github.com/cosi-project/runtime/pkg/resource"
	"github.com/cosi-project/runtime/pkg/state"
	"github.com/cosi-project/runtime/zzverif/verif"
)

// ZZ_TailEvents (C12-3): a tail request on a kind watch starts exactly
// min(n, capacity-gap, W) events back and delivers them in order before continuing live.
func ZZ_TailEvents() {
	cfg := zzPickCfg()
	W := zzSymW(cfg)
	c := zzCollectionAt(cfg, W, func(int64) resource.ID { return "x" })
	n := verif.Int("tail")
	verif.Assume(verif.And(n >= 1, n <= cfg.capacity+2))
	ctx, cancel := context.WithCancel(context.Background())
	defer cancel()
	ch := make(chan state.Event)
	verif.Assert(c.WatchAll(ctx, ch, nil, state.WithKindTailEvents(n)) == nil, "tail watch established")
	// expected first position
	k := int64(n)
	if lim := int64(cfg.capacity - cfg.gap); k > lim {
		k = lim
	}
	first := W - k
	if first < 0 {
		first = 0
	}
	for p := first; p <= W; p++ {
		if p == W {
			zzPublish(c, "x", W) // one live event after the tail has been consumed
		}
		ev := <-ch
		verif.Assert(ev.Type != state.Errored, "a tail within the retained window is never errored")
		verif.Assert(ev.Resource != nil && zzTag(ev) == p, "a tail-events request delivers exactly the last N retained events, in order, then continues live")
	}
	verif.Cover("tail delivered")
	if first < W {
		verif.Cover("non-empty tail")
	}
}

// ZZ_WatchSingle (C02): a single-resource watch on a collection at any write position delivers the
// current state first and then exactly the later events of that resource, in order, ignoring other ids.
func ZZ_WatchSingle() {
	cfg, rounds := zzPickCfgWatch(7)
	W := zzSymW(cfg)
	c := zzCollectionAt(cfg, W, func(int64) resource.ID { return "y" })
	present := verif.Choose("present", 2) == 1
	if present {
		c.storage["x"] = zzTagged("x", 1000)
	}
	ctx, cancel := context.WithCancel(context.Background())
	defer cancel()
	ch := make(chan state.Event)
	verif.Assert(c.Watch(ctx, "x", ch) == nil, "watch established")
	var expect []int64
	published := W
	initialSeen := false
	errored := false
	lastPos := W - 1 // position of the last event the watcher is known to have passed
	recvOne := func() {
		ev := <-ch
		if !initialSeen {
			initialSeen = true
			if present {
				verif.Assert(ev.Type == state.Created && zzTag(ev) == 1000, "a watch starts with the current state of the resource")
			} else {
				verif.Assert(ev.Type == state.Destroyed, "a watch of an absent resource starts with a Destroyed event")
			}
			return
		}
		if ev.Type == state.Errored {
			errored = true
			return
		}
		verif.Assert(len(expect) > 0 && ev.Resource.Metadata().ID() == "x" && zzTag(ev) == expect[0], "only the changes of the watched resource are delivered, each once and in commit order")
		lastPos = expect[0]
		expect = expect[1:]
	}
	recvOne() // initial state
	for r := 0; r < rounds && !errored; r++ {
		if verif.Choose("settle", 2) == 1 {
			verif.Quiesce()
		}
		np := verif.Choose("publishes", cfg.capacity+2)
		for i := 0; i < np; i++ {
			id := resource.ID("y")
			if verif.Choose("isWatched", 2) == 1 {
				id = "x"
				expect = append(expect, published)
			}
			zzPublish(c, id, published)
			published++
		}
		take := verif.Choose("receives", cfg.capacity+2)
		for k := 0; k < take && len(expect) > 0 && !errored; k++ {
			recvOne()
		}
	}
	for len(expect) > 0 && !errored {
		recvOne()
	}
	if errored {
		verif.Cover("overrun reported")
		verif.Assert(published-(lastPos+1) > int64(cfg.capacity), "a single-resource watcher is errored only if it lagged by more than the (initial) capacity")
	} else {
		verif.Cover("stream complete")
	}
}

// ZZ_TailSingle (C12-3): a tail request on a single-resource watch delivers exactly the last N
// retained events OF THAT RESOURCE (retained = the newest capacity-gap positions), in order, each
// with a bookmark that is accepted again, and then continues live.  Events of the watched resource
// "x" sit at every second position counted back from the newest one; the others belong to "y".
func ZZ_TailSingle() {
	cfg := zzPickCfg()
	W := zzSymW(cfg)
	c := zzCollectionAt(cfg, W, func(p int64) resource.ID {
		if (W-1-p)%2 == 0 {
			return "x"
		}
		return "y"
	})
	n := verif.Int("tail")
	verif.Assume(verif.And(n >= 1, n <= cfg.capacity+2))
	ctx, cancel := context.WithCancel(context.Background())
	defer cancel()
	ch := make(chan state.Event)
	verif.Assert(c.Watch(ctx, "x", ch, state.WithTailEvents(n)) == nil, "tail watch established")
	lo := W - int64(cfg.capacity-cfg.gap) // oldest retained position
	if lo < 0 {
		lo = 0
	}
	// positions of x inside the retained window, newest first
	var xs []int64
	for j := int64(0); j < int64(cfg.capacity); j += 2 {
		if p := W - 1 - j; p >= lo && len(xs) < n {
			xs = append(xs, p)
		}
	}
	for k := len(xs) - 1; k >= 0; k-- {
		ev := <-ch
		verif.Assert(ev.Type != state.Errored, "a tail within the retained window is never errored")
		verif.Assert(ev.Resource != nil && ev.Resource.Metadata().ID() == "x" && zzTag(ev) == xs[k], "a tail-events request on one resource delivers exactly its last N retained events, in order")
		pos, derr := decodeBookmark(ev.Bookmark)
		verif.Assert(derr == nil && pos == xs[k], "every tail event carries the bookmark of its own position")
		verif.Assert(pos >= W-int64(cfg.capacity)+int64(cfg.gap), "and that bookmark is inside the window from which a watch can be resumed")
	}
	zzPublish(c, "y", W)
	verif.Quiesce() // the watcher skips the foreign event (it never lags by more than one event here)
	zzPublish(c, "x", W+1)
	ev := <-ch
	verif.Assert(ev.Type != state.Errored && zzTag(ev) == W+1, "after the tail the watch continues live with the next event of that resource")
	verif.Cover("tail delivered")
	if len(xs) > 0 {
		verif.Cover("non-empty tail")
	}
	if len(xs) < n {
		verif.Cover("tail cut by the retained window")
	}
}
