package inmem

// In-package harnesses (overlay file, never written into /repo): they need to
// build a ResourceCollection at an arbitrary write position.

import (
	"context"

	"github.com/cosi-project/runtime/pkg/resource"
	"github.com/cosi-project/runtime/pkg/state"
	"github.com/cosi-project/runtime/zzverif/verif"
)

type zzRes struct{ md resource.Metadata }

func (r *zzRes) Metadata() *resource.Metadata { return &r.md }
func (r *zzRes) Spec() any                    { return nil }
func (r *zzRes) DeepCopy() resource.Resource  { return &zzRes{md: r.md} }

// zzTagged is a resource whose version carries the absolute log position.
func zzTagged(id resource.ID, tag int64) *zzRes {
	r := &zzRes{md: resource.NewMetadata("ns", "T", id, resource.VersionUndefined)}
	v := resource.VersionUndefined
	_ = v
	r.md.SetVersion(zzVersion(uint64(tag)))
	return r
}

func zzVersion(n uint64) resource.Version {
	return resource.ZZVersion(n)
}

func zzTag(ev state.Event) int64 {
	return int64(ev.Resource.Metadata().Version().Value())
}

type zzCfg struct{ capacity, max, gap int }

// (capacity, maximum capacity, gap); {2,3,0} and {3,5,1}: the maximum is not capacity*2^k, growth must be clamped
var zzConfigs = []zzCfg{{1, 1, 0}, {2, 2, 0}, {2, 4, 1}, {3, 3, 1}, {2, 3, 0}, {4, 4, 2}, {3, 6, 1}, {1, 4, 0}, {3, 5, 1}, {4, 8, 1}, {5, 5, 2}, {8, 8, 1}}

func zzPickCfg() zzCfg {
	n := 5
	if verif.Tier() == "thorough" {
		n = len(zzConfigs)
	}
	return zzConfigs[verif.Choose("config", n)]
}

// zzPickCfgWatch: configurations for the harnesses that run real watcher goroutines.  The thorough
// tier is the union of two explorations: the quick data bounds under a larger delay bound, and larger
// data bounds (capacities up to 4, a second publish/receive round for capacities <= 2) under the quick
// delay bound.
func zzPickCfgWatch(nMore int) (zzCfg, int) {
	if verif.Tier() != "thorough" {
		return zzConfigs[verif.Choose("config", 5)], 1
	}
	if verif.Choose("moreData", 2) == 0 {
		return zzConfigs[verif.Choose("config", 5)], 1 // delay bound of the registry (1)
	}
	verif.SetPreemptions(0)
	cfg := zzConfigs[verif.Choose("config", nMore)]
	if cfg.capacity <= 2 {
		return cfg, 2
	}
	return cfg, 1
}

// zzCollectionAt builds a collection in an arbitrary reachable state: write
// position W (symbolic), current capacity cfg.capacity, every retained slot
// holding the event of its position (tagged), ids from idOf.
func zzCollectionAt(cfg zzCfg, W int64, idOf func(p int64) resource.ID) *ResourceCollection {
	c := NewResourceCollection("ns", "T", cfg.capacity, cfg.max, cfg.gap, nil)
	c.writePos = W
	capacity := int64(cfg.capacity)
	for i := int64(0); i < capacity; i++ {
		var p int64
		if W <= capacity {
			if i >= W {
				continue // never written
			}
			p = i
		} else {
			p = W - 1 - ((W - 1 - i) % capacity)
		}
		ev := state.Event{Type: state.Created, Resource: zzTagged(idOf(p), p)}
		ev.Bookmark = encodeBookmark(p)
		c.stream[i] = ev
	}
	return c
}

func zzSymW(cfg zzCfg) int64 {
	W := verif.Int64("W")
	verif.Assume(verif.And(W >= 0, W < 1<<62))
	// reachability: the first lap at this capacity is not finished, or the buffer cannot grow
	verif.Assume(verif.Or(W <= int64(cfg.capacity), cfg.capacity == cfg.max))
	return W
}

// ZZ_RingLemma (C02-1a): publish preserves the ring invariant from any write position.
func ZZ_RingLemma() {
	cfg := zzPickCfg()
	W := zzSymW(cfg)
	c := zzCollectionAt(cfg, W, func(int64) resource.ID { return "x" })
	c.publish(state.Event{Type: state.Created, Resource: zzTagged("x", W)})
	verif.Assert(c.writePos == W+1, "write position advances by one")
	verif.Assert(verif.Or(c.writePos <= int64(c.capacity), c.capacity == c.maxCapacity), "reachability clause re-established: a buffer that can still grow has not wrapped")
	verif.Assert(c.capacity <= c.maxCapacity && c.capacity >= cfg.capacity && len(c.stream) == c.capacity, "capacity within limits and equal to the buffer length")
	newCap := int64(c.capacity)
	q := verif.Int64("q")
	lo := W + 1 - newCap
	if lo < 0 {
		lo = 0
	}
	verif.Assume(verif.And(q >= lo, q <= W))
	ev := c.stream[q%newCap]
	verif.Assert(ev.Resource != nil, "every retained position has an event")
	verif.Assert(zzTag(ev) == q, "slot q mod capacity holds event q for every retained position q")
	pos, err := decodeBookmark(c.stream[W%newCap].Bookmark)
	verif.Assert(err == nil && pos == W, "the published event carries the bookmark of its own position")
	verif.Cover("lemma checked")
	if c.capacity != cfg.capacity {
		verif.Cover("grown")
	}
	if W >= int64(cfg.capacity) && c.capacity == cfg.capacity {
		verif.Cover("wrapped")
	}
}

var zzBookmarkLens = []int{0, 8, 15, 16, 17, 20}

// ZZ_BookmarkPredicate (C12-1): a bookmark is accepted iff it is well formed,
// from this process, not ahead of the log and within the retained window.
func ZZ_BookmarkPredicate() {
	cfg := zzPickCfg()
	W := zzSymW(cfg)
	c := zzCollectionAt(cfg, W, func(int64) resource.ID { return "x" })
	var n int
	if verif.Tier() == "thorough" {
		n = verif.Choose("len", 21)
	} else {
		n = zzBookmarkLens[verif.Choose("len", len(zzBookmarkLens))]
	}
	b := verif.Bytes("bookmark", n)
	cookie := bookmarkCookie()
	ctx, cancel := context.WithCancel(context.Background())
	defer cancel()
	kind := verif.Choose("watchKind", 3)
	var err error
	lower := int64(0)
	switch kind {
	case 0:
		err = c.Watch(ctx, "x", make(chan state.Event), state.WithStartFromBookmark(b))
	case 1:
		err = c.WatchAll(ctx, make(chan state.Event), nil, state.WithKindStartFromBookmark(b))
		lower = -1
	case 2:
		err = c.WatchAll(ctx, nil, make(chan []state.Event), state.WithKindStartFromBookmark(b))
		lower = -1
	}
	wellFormed := n == 16
	if wellFormed {
		for i := 0; i < 8; i++ {
			wellFormed = verif.And(wellFormed, b[i] == cookie[i])
		}
	}
	if !wellFormed {
		verif.Assert(err != nil, "malformed or foreign bookmark is rejected")
		verif.Assert(state.IsInvalidWatchBookmarkError(err), "with an invalid-bookmark error")
		verif.Cover("malformed rejected")
		return
	}
	var upos uint64
	for i := 8; i < 16; i++ {
		upos = upos<<8 | uint64(b[i])
	}
	pos := int64(upos)
	oldest := W - int64(c.capacity) + int64(cfg.gap)
	inWindow := verif.And(pos >= oldest, pos >= lower, pos < W)
	verif.Observe("accepted", err == nil)
	verif.Assert(verif.Iff(err == nil, inWindow), "well-formed bookmark accepted iff its position is retained (not older than capacity-gap events) and not ahead of the log")
	if err != nil {
		verif.Assert(state.IsInvalidWatchBookmarkError(err), "rejection is an invalid-bookmark error")
		verif.Cover("stale or ahead rejected")
	} else {
		verif.Cover("accepted")
	}
	// the most recent (initial capacity - gap) events are always resumable
	recent := verif.And(pos < W, pos >= 0, W-pos <= int64(cfg.capacity-cfg.gap))
	verif.Assert(verif.Implies(recent, err == nil), "bookmarks of the most recent (initial capacity - gap) events are always accepted")
}

// ZZ_OptionConflicts (C12): tail+bookmark and bootstrap+tail/bookmark are rejected.
func ZZ_OptionConflicts() {
	c := NewResourceCollection("ns", "T", 4, 4, 1, nil)
	c.inject(zzTagged("x", 0))
	ctx, cancel := context.WithCancel(context.Background())
	defer cancel()
	bm := encodeBookmark(0)
	verif.Assert(c.Watch(ctx, "x", make(chan state.Event), state.WithStartFromBookmark(bm), state.WithTailEvents(1)) != nil, "Watch: tail and bookmark together rejected")
	verif.Assert(c.WatchAll(ctx, make(chan state.Event), nil, state.WithKindStartFromBookmark(bm), state.WithKindTailEvents(1)) != nil, "WatchKind: tail and bookmark together rejected")
	verif.Assert(c.WatchAll(ctx, make(chan state.Event), nil, state.WithBootstrapContents(true), state.WithKindTailEvents(1)) != nil, "WatchKind: bootstrap and tail together rejected")
	verif.Assert(c.WatchAll(ctx, make(chan state.Event), nil, state.WithBootstrapContents(true), state.WithKindStartFromBookmark(bm)) != nil, "WatchKind: bootstrap and bookmark together rejected")
	verif.Cover("conflicts rejected")
}

// zzPublish commits one more tagged event the way Create/Update do (under the lock).
func zzPublish(c *ResourceCollection, id resource.ID, tag int64) {
	c.mu.Lock()
	c.publish(state.Event{Type: state.Created, Resource: zzTagged(id, tag)})
	c.mu.Unlock()
}

// ZZ_ResumeIsSuffix (C12-2, C02-1b): a kind watch resumed from the bookmark of
// event P, on a collection at ANY write position, delivers exactly the events
// P+1, P+2, ... in order, each with the bookmark of its own position, also
// while more events are published; it is errored only if it lags by more than
// the capacity, and it never stops silently.
func ZZ_ResumeIsSuffix() {
	cfg, rounds := zzPickCfgWatch(7)
	W := zzSymW(cfg)
	c := zzCollectionAt(cfg, W, func(int64) resource.ID { return "x" })
	P := verif.Int64("P")
	verif.Assume(verif.And(P >= W-int64(cfg.capacity)+int64(cfg.gap), P >= -1, P < W))
	ctx, cancel := context.WithCancel(context.Background())
	defer cancel()
	agg := verif.Choose("aggregated", 2) == 1
	single := make(chan state.Event)
	batches := make(chan []state.Event)
	var err error
	if agg {
		err = c.WatchAll(ctx, nil, batches, state.WithKindStartFromBookmark(encodeBookmark(P)))
	} else {
		err = c.WatchAll(ctx, single, nil, state.WithKindStartFromBookmark(encodeBookmark(P)))
	}
	verif.Assert(err == nil, "bookmark inside the retained window is accepted")
	next := P + 1 // position of the next event we must receive
	published := W
	errored := false
	var pending []state.Event
	recv := func() state.Event {
		if agg {
			if len(pending) == 0 {
				pending = <-batches
				verif.Assert(len(pending) > 0, "aggregated batches are never empty")
			}
			ev := pending[0]
			pending = pending[1:]
			return ev
		}
		return <-single
	}
	for r := 0; r < rounds && !errored; r++ {
		if verif.Choose("settle", 2) == 1 {
			verif.Quiesce() // let the watcher run until it is idle (parked waiting for news)
			verif.Cover("watcher idle before publishes")
		}
		n := verif.Choose("publishes", cfg.capacity+2)
		for i := 0; i < n; i++ {
			zzPublish(c, "x", published)
			published++
		}
		take := verif.Choose("receives", cfg.capacity+2)
		for k := 0; k < take && next < published && !errored; k++ {
			ev := recv()
			if ev.Type == state.Errored {
				errored = true
				break
			}
			verif.Assert(ev.Resource != nil && zzTag(ev) == next, "resumed stream continues with exactly the next event (no gap, duplicate or reordering)")
			pos, derr := decodeBookmark(ev.Bookmark)
			verif.Assert(derr == nil && pos == next, "every delivered event carries a usable bookmark of its own position")
			next++
		}
	}
	// drain: everything published must arrive unless the watcher was errored
	for next < published && !errored {
		ev := recv()
		if ev.Type == state.Errored {
			errored = true
			break
		}
		verif.Assert(ev.Resource != nil && zzTag(ev) == next, "resumed stream continues with exactly the next event (no gap, duplicate or reordering)")
		next++
	}
	if errored {
		verif.Cover("overrun reported")
		verif.Assert(published-next > int64(cfg.capacity), "a watcher is errored only if it lagged by more than the (initial) capacity")
	} else {
		verif.Cover("resumed stream complete")
	}
	if c.capacity != cfg.capacity {
		verif.Cover("grown while watching")
	}
}
