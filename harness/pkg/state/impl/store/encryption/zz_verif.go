package encryption

// In-package harness (overlay file): the framing logic of Cipher/Marshaler
// under an AEAD contract (real AES-GCM is outside the claim).

import (
	"crypto/cipher"
	"errors"

	"github.com/cosi-project/runtime/pkg/resource"
	"github.com/cosi-project/runtime/zzverif/tres"
	"github.com/cosi-project/runtime/zzverif/verif"
)

// zzAEAD is a model AEAD: Seal appends nonce-bound plaintext and a 16-byte tag
// derived from (key, nonce, plaintext); Open accepts exactly what Seal produced
// under the same key and nonce.
type zzAEAD struct{ key byte }

func (zzAEAD) NonceSize() int { return 12 }
func (zzAEAD) Overhead() int  { return 16 }

func (a zzAEAD) tag(nonce, plaintext []byte) []byte {
	t := make([]byte, 16)
	t[0] = a.key
	for i, b := range nonce {
		t[1+i%15] += b
	}
	for i, b := range plaintext {
		t[1+i%15] += b * 3
	}
	t[15] += byte(len(plaintext))
	return t
}

func (a zzAEAD) Seal(dst, nonce, plaintext, _ []byte) []byte {
	out := append(dst, plaintext...)
	return append(out, a.tag(nonce, plaintext)...)
}

func (a zzAEAD) Open(dst, nonce, ciphertext, _ []byte) ([]byte, error) {
	if len(ciphertext) < 16 {
		return nil, errors.New("cipher: message authentication failed")
	}
	pt := ciphertext[:len(ciphertext)-16]
	want := a.tag(nonce, pt)
	ok := true
	for i := range want {
		ok = verif.And(ok, want[i] == ciphertext[len(pt)+i])
	}
	if !ok {
		return nil, errors.New("cipher: message authentication failed")
	}
	return append(dst, pt...), nil
}

type zzStub struct {
	out []byte
	got []byte
}

func (m *zzStub) MarshalResource(resource.Resource) ([]byte, error) { return m.out, nil }
func (m *zzStub) UnmarshalResource(b []byte) (resource.Resource, error) {
	m.got = append([]byte(nil), b...)
	return tres.NewA(tres.NS, "x", "decoded"), nil
}

func zzCipher(key byte) *Cipher {
	return &Cipher{cipher: func() (cipher.AEAD, error) { return zzAEAD{key}, nil }}
}

// ZZ_EncryptionFraming: Decrypt(Encrypt(b)) = b for arbitrary b; any change of
// the version byte, truncation, or use of another key is rejected.
func ZZ_EncryptionFraming() {
	n := verif.Choose("len", 4)
	plain := verif.Bytes("plain", n)
	under := &zzStub{out: plain}
	m := NewMarshaler(under, zzCipher(7))
	enc, err := m.MarshalResource(tres.NewA(tres.NS, "x", "p"))
	verif.Assert(err == nil, "encrypt")
	verif.Assert(len(enc) == 13+n+16 && enc[0] == 1, "record = version byte, 12-byte nonce, ciphertext")
	_, err = m.UnmarshalResource(enc)
	verif.Assert(err == nil, "decrypt of an untouched record succeeds")
	same := len(under.got) == n
	for i := 0; same && i < n; i++ {
		same = verif.And(same, under.got[i] == plain[i])
	}
	verif.Assert(same, "decryption yields exactly the encrypted bytes")
	verif.Cover("round trip")
	switch verif.Choose("tamper", 4) {
	case 0:
		bad := append([]byte(nil), enc...)
		bad[0] = verif.Byte("versionByte")
		verif.Assume(bad[0] != 1)
		_, err = m.UnmarshalResource(bad)
		verif.Assert(err != nil, "unknown format byte is rejected")
	case 1:
		k := verif.Choose("truncateTo", 14)
		_, err = m.UnmarshalResource(enc[:k])
		verif.Assert(err != nil, "record shorter than header+1 is rejected")
	case 2:
		other := NewMarshaler(under, zzCipher(8))
		_, err = other.UnmarshalResource(enc)
		verif.Assert(err != nil, "a record encrypted under another key is rejected")
	case 3:
		bad := append([]byte(nil), enc...)
		idx := 1 + verif.Choose("nonceByte", 12)
		delta := verif.Byte("delta")
		verif.Assume(delta != 0)
		bad[idx] += delta
		_, err = m.UnmarshalResource(bad)
		verif.Assert(err != nil, "a changed nonce byte is detected")
	}
	verif.Cover("tamper rejected")
}

// ZZ_KeyLength: keys of a length other than 32 bytes are refused.
func ZZ_KeyLength() {
	n := verif.Choose("keyLen", 34)
	if n == 32 {
		return
	}
	c := NewCipher(KeyProviderFunc(func() ([]byte, error) { return make([]byte, n), nil }))
	_, err := c.Encrypt([]byte{1})
	verif.Assert(err != nil, "key length other than 32 is rejected")
	_, err = c.Decrypt(make([]byte, 20))
	verif.Assert(err != nil, "key length other than 32 is rejected on decrypt")
	verif.Cover("bad key length")
}
