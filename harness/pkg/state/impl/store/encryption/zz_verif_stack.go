package encryption

import (
	"time"

	"github.com/cosi-project/runtime/pkg/resource"
	"github.com/cosi-project/runtime/pkg/state/impl/store"
	"github.com/cosi-project/runtime/pkg/state/impl/store/compression"
	"github.com/cosi-project/runtime/zzverif/tres"
	"github.com/cosi-project/runtime/zzverif/verif"
)

// ZZ_StackedRoundTrip (C18): a resource survives the store marshaler with the compression and
// encryption wrappers in every stacking, on both sides of the compression threshold; a record written
// under one key is rejected under another.  (zstd and AES-GCM under their contracts.)
func ZZ_StackedRoundTrip() {
	tres.RegisterProto()
	r := tres.NewA(tres.NS, "res", []string{"", "content", "a longer content, long enough to be worth compressing"}[verif.Choose("spec", 3)])
	r.TypedSpec().N = int64(verif.Choose("specN", 2) * 200)
	md := r.Metadata()
	md.SetVersion(resource.ZZVersion(7))
	verif.Assert(md.SetOwner("owner") == nil, "owner")
	md.Finalizers().Add("f")
	md.Labels().Set("k", "v")
	md.SetCreated(time.Unix(1700000000, 5).UTC())
	md.SetUpdated(time.Unix(1700000001, 0).UTC())

	base := store.ProtobufMarshaler{}
	stacking := verif.Choose("stacking", 4)
	build := func(key byte, minSize int) store.Marshaler {
		switch stacking {
		case 0:
			return NewMarshaler(compression.NewMarshaler(base, compression.ZStd(), minSize), zzCipher(key))
		case 1:
			return compression.NewMarshaler(NewMarshaler(base, zzCipher(key)), compression.ZStd(), minSize)
		case 2:
			return compression.NewMarshaler(base, compression.ZStd(), minSize)
		}
		return NewMarshaler(base, zzCipher(key))
	}
	// the length the compression wrapper will see
	var under store.Marshaler = base
	if stacking == 1 {
		under = NewMarshaler(base, zzCipher(7))
	}
	ub, err := under.MarshalResource(r)
	verif.Assert(err == nil, "inner marshal")
	minSize := []int{1, len(ub) - 1, len(ub), len(ub) + 1, 1 << 20}[verif.Choose("threshold", 5)]
	m := build(7, minSize)
	b, err := m.MarshalResource(r)
	verif.Assert(err == nil, "stacked marshal")
	compressed := stacking != 3 && len(ub) >= minSize
	if stacking == 1 || stacking == 2 {
		verif.Assert((b[0] == 0) == compressed, "a record is marked compressed (leading zero byte) iff it reached the threshold")
	}
	back, err := m.UnmarshalResource(b)
	verif.Assert(err == nil, "a record is read back by the stack that wrote it")
	bm := back.Metadata()
	verif.Assert(resource.Equal(r, back) && bm.Version().Equal(md.Version()) && bm.Owner() == "owner" && bm.Finalizers().Has("f") && bm.Created().Equal(md.Created()) && bm.Updated().Equal(md.Updated()) && tres.SpecOf(back) == tres.SpecOf(r),
		"the resource survives every stacking of the store marshaler wrappers unchanged")
	// the same stack with the other threshold setting still reads the record (the marker byte decides, not the setting)
	other := build(7, []int{1, 1 << 20}[verif.Choose("readerThreshold", 2)])
	back2, err := other.UnmarshalResource(b)
	verif.Assert(err == nil && resource.Equal(r, back2), "reading does not depend on the writer's threshold")
	if stacking != 2 {
		_, err = build(8, minSize).UnmarshalResource(b)
		verif.Assert(err != nil, "a record encrypted under another key is rejected, in every stacking")
		verif.Cover("wrong key rejected")
	}
	if compressed {
		verif.Cover("compressed")
	} else {
		verif.Cover("below threshold")
	}
}
