package zzverif_c14n

import (
	"github.com/cosi-project/runtime/pkg/resource/internal/compare"
	"github.com/cosi-project/runtime/zzverif/verif"
)

func upper(s string) string {
	b := []byte(s)
	for i := range b {
		if b[i] >= 'a' && b[i] <= 'z' {
			b[i] -= 32
		}
	}
	return string(b)
}

// H_NumericParser: the numeric operand parser of label comparisons is total on all short ASCII
// texts, deterministic, case-insensitive in its unit suffix, and scales by the documented units.
func H_NumericParser() {
	max := 3
	if verif.Tier() == "thorough" {
		max = 4
	}
	n := verif.Choose("len", max+1)
	s := verif.String("operand", n)
	for i := 0; i < n; i++ {
		verif.Assume(s[i] < 128) // ASCII operands (non-ASCII is outside the claim)
	}
	l, r, ok := compare.GetNumbers(s, s)
	if ok {
		verif.Cover("parsed")
		verif.Assert(l == r, "the same text always denotes the same number")
		lu, _, oku := compare.GetNumbers(upper(s), "1")
		verif.Assert(oku && lu == l, "unit suffixes are case-insensitive")
	} else {
		verif.Cover("rejected")
		_, _, oku := compare.GetNumbers(upper(s), "1")
		verif.Assert(!oku, "rejection does not depend on letter case")
	}
	// a non-numeric operand on either side makes the comparison undefined
	_, _, ok2 := compare.GetNumbers("7", s)
	verif.Assert(ok2 == ok, "an operand is accepted or rejected independently of the side it is on")
	// documented units on a concrete number with a symbolic suffix letter
	if n == 1 {
		v, _, oks := compare.GetNumbers("2"+s, "1")
		if oks {
			switch s[0] {
			case 'k', 'K':
				verif.Assert(v == 2000, "k = 10^3")
				verif.Cover("decimal unit")
			case 'm', 'M':
				verif.Assert(v == 2000000, "M = 10^6")
			}
		}
		w, _, okb := compare.GetNumbers("2"+s+"i", "1")
		if okb && (s[0] == 'k' || s[0] == 'K') {
			verif.Assert(w == 2048, "Ki = 2^10")
			verif.Cover("binary unit")
		}
	}
}
