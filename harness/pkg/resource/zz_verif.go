package resource

// ZZVersion builds a Version with an arbitrary numeric value (overlay accessor
// for harnesses; never written into /repo).
func ZZVersion(n uint64) Version {
	return Version{uint64: &n}
}
