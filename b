#!/bin/sh
# dev helper: build the engine and run a property
export GOFLAGS=-mod=mod GOPROXY=off GOSUMDB=off GOTOOLCHAIN=local PATH=/opt/veriftools/go1.26.8/bin:$PATH
cd /verif/engine && go build -o /verif/bin/gosmt ./cmd/gosmt || exit 3
cd /verif && exec ./bin/gosmt run "$@"
