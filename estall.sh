#!/bin/bash
# development aid: estimate the path count of every harness of a tier (Knuth estimator)
cd "$(dirname "$0")"
tier=${1:-thorough}; shift
P=${@:-$(python3 -c "import json;print(' '.join(p['id'] for p in json.load(open('harness/props.json'))['props']))")}
for p in $P; do
  GOSMT_VERIF_DIR=$PWD ./bin/gosmt run -prop $p -tier $tier -no-evidence -workers 14 -estimate 300 2>&1 | grep -E "ESTIMATE|UNSUPPORTED|panic" | sed "s/^gosmt: ESTIMATE/$p/"
done
