package interp

// Intrinsics: functions that are assembly, unsafe, reflect-based or part of
// the environment (sync, atomic, time, fmt, errors, sort ...).  Each is a
// contract listed in DESIGN.md section 2.9; the set actually hit by a run is
// written to the evidence file.

import (
	"fmt"
	"math/big"
	"sync"
	"unsafe"
	"go/token"
	"go/types"
	"strings"

	"golang.org/x/tools/go/ssa"
)

// SkipInitPrefixes: packages whose init function is not interpreted (their
// globals stay zero unless an intrinsic provides them).
var SkipInitPrefixes = []string{
	"runtime", "internal/", "syscall", "os", "reflect", "sync", "unsafe", "time", "fmt",
	"math/rand", "crypto/", "log", "go.uber.org/zap", "go.uber.org/multierr", "expvar", "google.golang.org/",
	"go.yaml.in/", "github.com/siderolabs/gen/concurrent", "github.com/cosi-project/runtime/api",
	"github.com/grpc-ecosystem", "golang.org/x/", "encoding/json", "encoding/xml", "encoding/gob", "encoding/asn1", "net", "hash/", "compress/", "github.com/klauspost/",
	"github.com/ProtonMail/", "github.com/cloudflare/", "go.etcd.io/", "unique", "weak",
	"text/", "html/", "mime", "embed", "iter", "github.com/planetscale/vtprotobuf/types", "github.com/siderolabs/protoenc",
}

// zeroOK lists globals of packages with skipped init that may be read as zero values.
var zeroOKGlobals = map[string]bool{
	"crypto/rand.Reader":                      true, // io.ReadFull on it is an intrinsic
	"go.uber.org/zap/zapcore.DefaultClock":    true, // only read by a logger that writes; harness loggers are no-ops
	// time zones: a nil *Location means UTC; all virtual times are UTC
	"time.Local": true, "time.UTC": true, "time.utcLoc": true, "time.localLoc": true,
}

func ShouldSkipInit(path string) bool {
	for _, p := range SkipInitPrefixes {
		if path == p || strings.HasPrefix(path, p+"/") || (strings.HasSuffix(p, "/") && strings.HasPrefix(path, p)) {
			return true
		}
	}
	return false
}

var skipScan struct {
	sync.Mutex
	done map[*ssa.Package]map[*ssa.Global]bool
}

// initTouchedGlobals returns the globals that the (skipped) init code of pkg
// references, i.e. those that would not be zero in a real run.
func initTouchedGlobals(pkg *ssa.Package) map[*ssa.Global]bool {
	skipScan.Lock()
	defer skipScan.Unlock()
	if skipScan.done == nil {
		skipScan.done = map[*ssa.Package]map[*ssa.Global]bool{}
	}
	if m, ok := skipScan.done[pkg]; ok {
		return m
	}
	m := map[*ssa.Global]bool{}
	seen := map[*ssa.Function]bool{}
	var visit func(f *ssa.Function)
	visit = func(f *ssa.Function) {
		if f == nil || seen[f] || f.Pkg != pkg {
			return
		}
		seen[f] = true
		for _, b := range f.Blocks {
			for _, in := range b.Instrs {
				for _, op := range in.Operands(nil) {
					switch v := (*op).(type) {
					case *ssa.Global:
						if v.Pkg == pkg {
							m[v] = true
						}
					case *ssa.Function:
						if strings.HasPrefix(v.Name(), "init") {
							visit(v)
						}
					}
				}
			}
		}
		for _, af := range f.AnonFuncs {
			visit(af)
		}
	}
	visit(pkg.Func("init"))
	skipScan.done[pkg] = m
	return m
}

// findExternal resolves an intrinsic for fn (exact name, then generic origin name).
func findExternal(fn *ssa.Function) externalFn {
	if ext := externals[fn.String()]; ext != nil {
		return ext
	}
	if o := fn.Origin(); o != nil {
		if ext := externals[o.String()]; ext != nil {
			return ext
		}
		name := o.String()
		if strings.Contains(name, "github.com/siderolabs/gen/concurrent.HashTrieMap[") {
			return htmExternal(fn, o)
		}
		if strings.HasPrefix(name, "(*sync/atomic.Pointer[") {
			return atomicPointerExternal(fn)
		}
	}
	return nil
}

func fieldCell(p value, idx int) *value {
	pv := p.(*value)
	if pv == nil {
		panic(targetPanic{"runtime error: invalid memory address or nil pointer dereference"})
	}
	return &(*pv).(structure)[idx]
}

func derefCell(p value) *value {
	pv := p.(*value)
	if pv == nil {
		panic(targetPanic{"runtime error: invalid memory address or nil pointer dereference"})
	}
	return pv
}

// callMethod invokes method name on the dynamic value of an interface.
func (i *interpreter) callMethod(fr *frame, recv iface, name string, args ...value) value {
	if recv.t == nil {
		panic(targetPanic{"runtime error: invalid memory address or nil pointer dereference (method call on nil interface)"})
	}
	ms := i.prog.MethodSets.MethodSet(recv.t)
	for k := 0; k < ms.Len(); k++ {
		sel := ms.At(k)
		if sel.Obj().Name() == name {
			fn := i.prog.MethodValue(sel)
			return call(i, fr, token.NoPos, fn, append([]value{recv.v}, args...))
		}
	}
	panic(engineBug{fmt.Sprintf("callMethod: %s has no method %s", recv.t, name)})
}

func (i *interpreter) hasMethod(t types.Type, name string) *ssa.Function {
	ms := i.prog.MethodSets.MethodSet(t)
	for k := 0; k < ms.Len(); k++ {
		sel := ms.At(k)
		if sel.Obj().Name() == name {
			return i.prog.MethodValue(sel)
		}
	}
	return nil
}

// ---- sync ----

type emutex struct {
	locked  bool
	owner   *thread
	readers int
}

func (i *interpreter) mutexOf(cell *value) *emutex {
	if m, ok := i.side[cell]; ok {
		return m.(*emutex)
	}
	m := &emutex{}
	i.side[cell] = m
	return m
}

type econd struct{ waiters []*condWaiter }
type condWaiter struct{ signaled bool }

type ewaitgroup struct{ n int }

func init() {
	lock := func(fr *frame, args []value) value {
		i := fr.i
		m := i.mutexOf(derefCell(args[0]))
		i.S.yield(yLock, m)
		i.S.blockUntil(func() bool { return !m.locked && m.readers == 0 })
		m.locked = true
		m.owner = i.S.cur
		return nil
	}
	unlock := func(fr *frame, args []value) value {
		i := fr.i
		m := i.mutexOf(derefCell(args[0]))
		if !m.locked {
			panic(targetPanic{"fatal error: sync: unlock of unlocked mutex"})
		}
		m.locked = false
		m.owner = nil
		i.S.yield(yLock, m)
		return nil
	}
	trylock := func(fr *frame, args []value) value {
		i := fr.i
		m := i.mutexOf(derefCell(args[0]))
		i.S.yield(yLock, m)
		if m.locked || m.readers > 0 {
			return false
		}
		m.locked = true
		m.owner = i.S.cur
		return true
	}
	externals["(*sync.Mutex).Lock"] = lock
	externals["(*sync.Mutex).Unlock"] = unlock
	externals["(*sync.Mutex).TryLock"] = trylock
	externals["(*sync.RWMutex).Lock"] = lock
	externals["(*sync.RWMutex).Unlock"] = unlock
	externals["(*sync.RWMutex).TryLock"] = trylock
	externals["(*sync.RWMutex).RLock"] = func(fr *frame, args []value) value {
		i := fr.i
		m := i.mutexOf(derefCell(args[0]))
		i.S.yield(yLock, m)
		i.S.blockUntil(func() bool { return !m.locked })
		m.readers++
		return nil
	}
	externals["(*sync.RWMutex).TryRLock"] = func(fr *frame, args []value) value {
		i := fr.i
		m := i.mutexOf(derefCell(args[0]))
		i.S.yield(yLock, m)
		if m.locked {
			return false
		}
		m.readers++
		return true
	}
	externals["(*sync.RWMutex).RUnlock"] = func(fr *frame, args []value) value {
		i := fr.i
		m := i.mutexOf(derefCell(args[0]))
		if m.readers <= 0 {
			panic(targetPanic{"fatal error: sync: RUnlock of unlocked RWMutex"})
		}
		m.readers--
		i.S.yield(yLock, m)
		return nil
	}
	// sync.Cond: struct{noCopy; L Locker; notify; checker}
	condOf := func(i *interpreter, cell *value) *econd {
		if c, ok := i.side[cell]; ok {
			return c.(*econd)
		}
		c := &econd{}
		i.side[cell] = c
		return c
	}
	externals["(*sync.Cond).Wait"] = func(fr *frame, args []value) value {
		i := fr.i
		cell := derefCell(args[0])
		c := condOf(i, cell)
		l := (*cell).(structure)[1].(iface)
		w := &condWaiter{}
		c.waiters = append(c.waiters, w)
		i.callMethod(fr, l, "Unlock")
		i.S.blockUntil(func() bool { return w.signaled })
		i.callMethod(fr, l, "Lock")
		return nil
	}
	externals["(*sync.Cond).Broadcast"] = func(fr *frame, args []value) value {
		i := fr.i
		c := condOf(i, derefCell(args[0]))
		for _, w := range c.waiters {
			w.signaled = true
		}
		c.waiters = nil
		// not a scheduling point: waiters cannot proceed before the caller
		// releases the associated lock, which is one
		return nil
	}
	externals["(*sync.Cond).Signal"] = func(fr *frame, args []value) value {
		i := fr.i
		c := condOf(i, derefCell(args[0]))
		if len(c.waiters) > 0 {
			k := 0
			if len(c.waiters) > 1 {
				k = i.P.choose(dSched, len(c.waiters))
			}
			c.waiters[k].signaled = true
			c.waiters = append(c.waiters[:k:k], c.waiters[k+1:]...)
		}
		i.S.yield(yCond, c)
		return nil
	}
	wgOf := func(i *interpreter, cell *value) *ewaitgroup {
		if c, ok := i.side[cell]; ok {
			return c.(*ewaitgroup)
		}
		c := &ewaitgroup{}
		i.side[cell] = c
		return c
	}
	externals["(*sync.WaitGroup).Add"] = func(fr *frame, args []value) value {
		wg := wgOf(fr.i, derefCell(args[0]))
		wg.n += args[1].(int)
		if wg.n < 0 {
			panic(targetPanic{"sync: negative WaitGroup counter"})
		}
		fr.i.S.yield(yWait, wg)
		return nil
	}
	externals["(*sync.WaitGroup).Done"] = func(fr *frame, args []value) value {
		wg := wgOf(fr.i, derefCell(args[0]))
		wg.n--
		if wg.n < 0 {
			panic(targetPanic{"sync: negative WaitGroup counter"})
		}
		fr.i.S.yield(yWait, wg)
		return nil
	}
	externals["(*sync.WaitGroup).Wait"] = func(fr *frame, args []value) value {
		wg := wgOf(fr.i, derefCell(args[0]))
		fr.i.S.yield(yWait, wg)
		fr.i.S.blockUntil(func() bool { return wg.n == 0 })
		return nil
	}
	externals["(*sync.WaitGroup).Go"] = func(fr *frame, args []value) value {
		i := fr.i
		wg := wgOf(i, derefCell(args[0]))
		wg.n++
		f := args[1]
		i.S.spawnNative(i, func() {
			defer func() { wg.n-- }()
			call(i, nil, token.NoPos, f, nil)
		})
		i.S.yield(yGo, nil)
		return nil
	}
	externals["(*sync.Pool).Get"] = func(fr *frame, args []value) value {
		cell := derefCell(args[0])
		st := (*cell).(structure)
		newFn := st[len(st)-1]
		if f, ok := newFn.(*ssa.Function); ok && f == nil {
			return iface{}
		}
		return call(fr.i, fr, token.NoPos, newFn, nil)
	}
	externals["(*sync.Pool).Put"] = func(fr *frame, args []value) value { return nil }
	externals["sync.runtime_registerPoolCleanup"] = func(fr *frame, args []value) value { return nil }
	externals["sync.fatal"] = func(fr *frame, args []value) value {
		panic(targetPanic{"fatal error: " + toString(args[0])})
	}
}

// spawnNative starts an engine thread running a host closure.
func (s *scheduler) spawnNative(i *interpreter, body func()) {
	s.spawn(i, nativeFn(body), nil, token.NoPos)
}

type nativeFn func()

// ---- sync/atomic ----

func init() {
	ld := func(fr *frame, args []value) value {
		fr.i.S.yield(yAtomic, args[0])
		return *derefCell(args[0])
	}
	st := func(fr *frame, args []value) value {
		fr.i.S.yield(yAtomic, args[0])
		*derefCell(args[0]) = args[1]
		return nil
	}
	swap := func(fr *frame, args []value) value {
		fr.i.S.yield(yAtomic, args[0])
		p := derefCell(args[0])
		old := *p
		*p = args[1]
		return old
	}
	mkCAS := func(k types.BasicKind) externalFn {
		return func(fr *frame, args []value) value {
			i := fr.i
			i.S.yield(yAtomic, args[0])
			p := derefCell(args[0])
			var eq value
			if k == types.UnsafePointer {
				eq = *p == args[1]
			} else {
				eq = i.eqv(types.Typ[k], *p, args[1])
			}
			if i.decide(eq) {
				*p = args[2]
				return true
			}
			return false
		}
	}
	mkAdd := func(k types.BasicKind) externalFn {
		return func(fr *frame, args []value) value {
			i := fr.i
			i.S.yield(yAtomic, args[0])
			p := derefCell(args[0])
			*p = i.binop(token.ADD, types.Typ[k], *p, args[1])
			return *p
		}
	}
	mkBit := func(k types.BasicKind, op token.Token) externalFn {
		return func(fr *frame, args []value) value {
			i := fr.i
			i.S.yield(yAtomic, args[0])
			p := derefCell(args[0])
			old := *p
			*p = i.binop(op, types.Typ[k], *p, args[1])
			return old
		}
	}
	kinds := map[string]types.BasicKind{"Uint32": types.Uint32, "Int32": types.Int32, "Uint64": types.Uint64, "Int64": types.Int64, "Uintptr": types.Uintptr, "Pointer": types.UnsafePointer}
	for name, k := range kinds {
		externals["sync/atomic.Load"+name] = ld
		externals["sync/atomic.Store"+name] = st
		externals["sync/atomic.Swap"+name] = swap
		externals["sync/atomic.CompareAndSwap"+name] = mkCAS(k)
		if k != types.UnsafePointer {
			externals["sync/atomic.Add"+name] = mkAdd(k)
			externals["sync/atomic.And"+name] = mkBit(k, token.AND)
			externals["sync/atomic.Or"+name] = mkBit(k, token.OR)
		}
	}
	// atomic.Value: struct{v any}; we store the interface value itself
	fld := func(p value) *value { return fieldCell(p, 0) }
	getIface := func(v value) iface {
		if v == nil {
			return iface{}
		}
		return v.(iface)
	}
	externals["(*sync/atomic.Value).Load"] = func(fr *frame, args []value) value {
		fr.i.S.yield(yAtomic, args[0])
		return getIface(*fld(args[0]))
	}
	externals["(*sync/atomic.Value).Store"] = func(fr *frame, args []value) value {
		fr.i.S.yield(yAtomic, args[0])
		if args[1].(iface).t == nil {
			panic(targetPanic{"sync/atomic: store of nil value into Value"})
		}
		*fld(args[0]) = args[1]
		return nil
	}
	externals["(*sync/atomic.Value).Swap"] = func(fr *frame, args []value) value {
		fr.i.S.yield(yAtomic, args[0])
		old := getIface(*fld(args[0]))
		*fld(args[0]) = args[1]
		return old
	}
	externals["(*sync/atomic.Value).CompareAndSwap"] = func(fr *frame, args []value) value {
		i := fr.i
		i.S.yield(yAtomic, args[0])
		p := fld(args[0])
		c := getIface(*p)
		o := args[1].(iface)
		var eq value = false
		if c.t == nil && o.t == nil {
			eq = true
		} else if c.t != nil && o.t != nil && types.Identical(c.t, o.t) {
			eq = i.eqv(c.t, c.v, o.v)
		}
		if i.decide(eq) {
			*p = args[2]
			return true
		}
		return false
	}
}

// atomic.Pointer[T]: struct{_ [0]*T; _ noCopy; v unsafe.Pointer}; the *T is
// stored directly in the v cell.
func atomicPointerExternal(fn *ssa.Function) externalFn {
	cell := func(p value) *value {
		st := (*derefCell(p)).(structure)
		return &st[len(st)-1]
	}
	get := func(c *value) value {
		if pv, ok := (*c).(*value); ok {
			return pv
		}
		return (*value)(nil) // zero unsafe.Pointer
	}
	switch fn.Name() {
	case "Load":
		return func(fr *frame, args []value) value {
			fr.i.S.yield(yAtomic, args[0])
			return get(cell(args[0]))
		}
	case "Store":
		return func(fr *frame, args []value) value {
			fr.i.S.yield(yAtomic, args[0])
			*cell(args[0]) = args[1]
			return nil
		}
	case "Swap":
		return func(fr *frame, args []value) value {
			fr.i.S.yield(yAtomic, args[0])
			c := cell(args[0])
			old := get(c)
			*c = args[1]
			return old
		}
	case "CompareAndSwap":
		return func(fr *frame, args []value) value {
			fr.i.S.yield(yAtomic, args[0])
			c := cell(args[0])
			if get(c) == args[1].(*value) {
				*c = args[2]
				return true
			}
			return false
		}
	}
	return nil
}

// ---- gen/concurrent.HashTrieMap ----

func htmExternal(fn, origin *ssa.Function) externalFn {
	getMap := func(i *interpreter, recv value) *amap {
		cell := derefCell(recv)
		if m, ok := i.side[cell]; ok {
			return m.(*amap)
		}
		m := &amap{}
		i.side[cell] = m
		return m
	}
	keyType := func() types.Type {
		recv := fn.Signature.Recv().Type().(*types.Pointer).Elem().(*types.Named)
		return recv.TypeArgs().At(0)
	}
	valType := func() types.Type {
		recv := fn.Signature.Recv().Type().(*types.Pointer).Elem().(*types.Named)
		return recv.TypeArgs().At(1)
	}
	switch fn.Name() {
	case "Load":
		return func(fr *frame, args []value) value {
			i := fr.i
			i.S.yield(yAtomic, args[0])
			m := getMap(i, args[0])
			if j := i.mapFind(m, keyType(), args[1]); j >= 0 {
				return tuple{m.vals[j], true}
			}
			return tuple{zero(valType()), false}
		}
	case "LoadOrStore":
		return func(fr *frame, args []value) value {
			i := fr.i
			i.S.yield(yAtomic, args[0])
			m := getMap(i, args[0])
			if j := i.mapFind(m, keyType(), args[1]); j >= 0 {
				return tuple{m.vals[j], true}
			}
			m.keys = append(m.keys, args[1])
			m.vals = append(m.vals, args[2])
			return tuple{args[2], false}
		}
	case "Store":
		return func(fr *frame, args []value) value {
			i := fr.i
			i.S.yield(yAtomic, args[0])
			i.mapUpdate(getMap(i, args[0]), keyType(), args[1], args[2])
			return nil
		}
	case "Delete":
		return func(fr *frame, args []value) value {
			i := fr.i
			i.S.yield(yAtomic, args[0])
			i.mapDelete(getMap(i, args[0]), keyType(), args[1])
			return nil
		}
	}
	return func(fr *frame, args []value) value {
		panic(unsupported{"HashTrieMap." + fn.Name()})
	}
}

// ---- time ----

func (i *interpreter) newTimerCell(vt *vtimer, typ types.Type) value {
	st := zero(typ).(structure)
	st[0] = vt.ch
	st[1] = true
	var v value = st
	p := &v
	i.side[p] = vt
	return p
}

func (i *interpreter) addTimer(d int64, ch *echan, fn value, period int64) *vtimer {
	vt := &vtimer{when: i.S.now + d, ch: ch, fn: fn, period: period, seq: len(i.S.timers)}
	i.S.timers = append(i.S.timers, vt)
	return vt
}

func durationOf(v value) int64 {
	if _, ok := v.(*sym); ok {
		panic(unsupported{"symbolic duration"})
	}
	return v.(int64)
}

func init() {
	externals["time.Now"] = func(fr *frame, args []value) value {
		return fr.i.timeValue(fr.i.S.now)
	}
	externals["time.runtimeNano"] = func(fr *frame, args []value) value { return fr.i.S.now }
	externals["time.Sleep"] = func(fr *frame, args []value) value {
		i := fr.i
		d := durationOf(args[0])
		if d <= 0 {
			i.S.yield(yExplicit, nil)
			return nil
		}
		vt := i.addTimer(d, &echan{cap: 1}, nil, 0)
		i.S.blockUntil(func() bool { return vt.fired })
		return nil
	}
	timerType := func(fr *frame, name string) types.Type {
		return fr.i.prog.ImportedPackage("time").Type(name).Type()
	}
	externals["time.NewTimer"] = func(fr *frame, args []value) value {
		i := fr.i
		vt := i.addTimer(durationOf(args[0]), &echan{cap: 1}, nil, 0)
		return i.newTimerCell(vt, timerType(fr, "Timer"))
	}
	externals["time.AfterFunc"] = func(fr *frame, args []value) value {
		i := fr.i
		vt := i.addTimer(durationOf(args[0]), nil, args[1], 0)
		return i.newTimerCell(vt, timerType(fr, "Timer"))
	}
	externals["time.NewTicker"] = func(fr *frame, args []value) value {
		i := fr.i
		d := durationOf(args[0])
		if d <= 0 {
			panic(targetPanic{"non-positive interval for NewTicker"})
		}
		vt := i.addTimer(d, &echan{cap: 1}, nil, d)
		return i.newTimerCell(vt, timerType(fr, "Ticker"))
	}
	timerOf := func(fr *frame, p value) *vtimer {
		vt, ok := fr.i.side[p.(*value)]
		if !ok {
			panic(targetPanic{"time: Stop/Reset called on uninitialized Timer"})
		}
		return vt.(*vtimer)
	}
	stop := func(fr *frame, args []value) value {
		vt := timerOf(fr, args[0])
		// Go 1.23+ semantics: a fired timer whose value has not been received yet still counts as active
		was := (!vt.fired && !vt.stopped) || (vt.ch != nil && len(vt.ch.buf) > 0)
		vt.stopped = true
		if vt.ch != nil {
			vt.ch.buf = nil
		}
		return was
	}
	externals["(*time.Timer).Stop"] = stop
	externals["(*time.Ticker).Stop"] = func(fr *frame, args []value) value { stop(fr, args); return nil }
	externals["(*time.Timer).Reset"] = func(fr *frame, args []value) value {
		vt := timerOf(fr, args[0])
		was := (!vt.fired && !vt.stopped) || (vt.ch != nil && len(vt.ch.buf) > 0)
		vt.fired, vt.stopped = false, false
		if vt.ch != nil {
			vt.ch.buf = nil
		}
		vt.when = fr.i.S.now + durationOf(args[1])
		return was
	}
	externals["(*time.Ticker).Reset"] = func(fr *frame, args []value) value {
		vt := timerOf(fr, args[0])
		d := durationOf(args[1])
		vt.fired, vt.stopped = false, false
		vt.period = d
		vt.when = fr.i.S.now + d
		return nil
	}
}

// ---- fmt / errors ----

func (i *interpreter) fmtPkgType(name string) types.Type {
	return i.prog.ImportedPackage("fmt").Type(name).Type()
}

// formatArgs renders fmt-style output when everything is concrete, else opaque.
func (i *interpreter) sprintf(format value, args []value) value {
	f, ok := format.(string)
	if !ok {
		return i.newOpaque()
	}
	goargs := make([]any, len(args))
	for k, a := range args {
		g, ok := i.toGo(a.(iface))
		if !ok {
			return i.newOpaque()
		}
		goargs[k] = g
	}
	return fmt.Sprintf(f, goargs...)
}

// toGo converts a boxed interface value to a host value for formatting, when
// it is a plain concrete scalar; anything else makes the result opaque.
func (i *interpreter) toGo(v iface) (any, bool) {
	if v.t == nil {
		return nil, true
	}
	switch x := v.v.(type) {
	case bool, int, int8, int16, int32, int64, uint, uint8, uint16, uint32, uint64, uintptr, float32, float64, string:
		if _, isBasic := v.t.(*types.Basic); isBasic {
			return x, true
		}
		// named types may have String/Error methods: opaque
		if i.hasMethod(v.t, "String") != nil || i.hasMethod(v.t, "Error") != nil {
			return nil, false
		}
		return x, true
	}
	return nil, false
}

func init() {
	externals["fmt.Sprintf"] = func(fr *frame, args []value) value {
		return fr.i.sprintf(args[0], args[1].([]value))
	}
	externals["fmt.Sprint"] = func(fr *frame, args []value) value {
		a := args[0].([]value)
		goargs := make([]any, len(a))
		for k, x := range a {
			g, ok := fr.i.toGo(x.(iface))
			if !ok {
				return fr.i.newOpaque()
			}
			goargs[k] = g
		}
		return fmt.Sprint(goargs...)
	}
	externals["fmt.Sprintln"] = func(fr *frame, args []value) value { return fr.i.newOpaque() }
	noop := func(fr *frame, args []value) value { return nil }
	ret0 := func(fr *frame, args []value) value { return tuple{0, iface{}} }
	externals["fmt.Printf"] = ret0
	externals["fmt.Println"] = ret0
	externals["fmt.Print"] = ret0
	externals["fmt.Fprintf"] = ret0
	externals["fmt.Fprintln"] = ret0
	externals["fmt.Fprint"] = ret0
	externals["fmt.Errorf"] = func(fr *frame, args []value) value {
		i := fr.i
		msg := i.sprintfErr(args[0], args[1].([]value))
		// collect %w operands
		var wrapped []value
		if f, ok := args[0].(string); ok {
			for _, idx := range wVerbArgs(f) {
				va := args[1].([]value)
				if idx < len(va) {
					if e := va[idx].(iface); e.t != nil && types.Implements(e.t, errorIface) {
						wrapped = append(wrapped, e)
					}
				}
			}
		}
		switch len(wrapped) {
		case 0:
			t := i.fmtPkgType("wrapError") // reuse: errors.errorString is in a skipped package too
			_ = t
			es := i.prog.ImportedPackage("errors").Type("errorString").Type()
			var s value = structure{msg}
			return iface{t: types.NewPointer(es), v: &s}
		case 1:
			t := i.fmtPkgType("wrapError")
			var s value = structure{msg, wrapped[0]}
			return iface{t: types.NewPointer(t), v: &s}
		default:
			t := i.fmtPkgType("wrapErrors")
			var s value = structure{msg, []value(wrapped)}
			return iface{t: types.NewPointer(t), v: &s}
		}
	}
	externals["errors.Is"] = func(fr *frame, args []value) value {
		return fr.i.errorsIs(fr, args[0].(iface), args[1].(iface))
	}
	externals["errors.As"] = func(fr *frame, args []value) value {
		return fr.i.errorsAs(fr, args[0].(iface), args[1].(iface))
	}
	_ = noop
}

var errorIface = types.Universe.Lookup("error").Type().Underlying().(*types.Interface)

// sprintfErr: like sprintf but error operands make the text opaque only.
func (i *interpreter) sprintfErr(format value, args []value) value {
	f, ok := format.(string)
	if !ok {
		return i.newOpaque()
	}
	if len(args) == 0 && !strings.Contains(f, "%") {
		return f
	}
	return i.newOpaque()
}

// wVerbArgs returns the argument indices consumed by %w verbs in a format
// string (simple scanner: counts verbs, honours %%; explicit indexes and *
// widths are not used by the code under analysis).
func wVerbArgs(f string) []int {
	var res []int
	argi := 0
	for k := 0; k < len(f); k++ {
		if f[k] != '%' {
			continue
		}
		k++
		// flags, width, precision
		for k < len(f) && strings.ContainsRune("+-# 0123456789.", rune(f[k])) {
			k++
		}
		if k >= len(f) {
			break
		}
		if f[k] == '%' {
			continue
		}
		if f[k] == 'w' {
			res = append(res, argi)
		}
		argi++
	}
	return res
}

func (i *interpreter) unwrapErr(fr *frame, e iface) []iface {
	if e.t == nil {
		return nil
	}
	fn := i.hasMethod(e.t, "Unwrap")
	if fn == nil {
		return nil
	}
	res := fn.Signature.Results()
	if res.Len() != 1 {
		return nil
	}
	r := call(i, fr, token.NoPos, fn, []value{e.v})
	switch r := r.(type) {
	case iface:
		if !types.Identical(res.At(0).Type(), types.Universe.Lookup("error").Type()) {
			return nil
		}
		if r.t == nil {
			return nil
		}
		return []iface{r}
	case []value:
		var out []iface
		for _, x := range r {
			if xi := x.(iface); xi.t != nil {
				out = append(out, xi)
			}
		}
		return out
	}
	return nil
}

func (i *interpreter) errorsIs(fr *frame, err, tgt iface) value {
	if err.t == nil || tgt.t == nil {
		return err.t == nil && tgt.t == nil
	}
	comparable := types.Comparable(tgt.t)
	var walk func(e iface) bool
	walk = func(e iface) bool {
		if e.t == nil {
			return false
		}
		if comparable && types.Identical(e.t, tgt.t) && i.decide(i.eqv(e.t, e.v, tgt.v)) {
			return true
		}
		if fn := i.hasMethod(e.t, "Is"); fn != nil && fn.Signature.Params().Len() == 1 && fn.Signature.Results().Len() == 1 {
			if i.decide(call(i, fr, token.NoPos, fn, []value{e.v, tgt})) {
				return true
			}
		}
		for _, u := range i.unwrapErr(fr, e) {
			if walk(u) {
				return true
			}
		}
		return false
	}
	return walk(err)
}

func (i *interpreter) errorsAs(fr *frame, err, tgt iface) value {
	if tgt.t == nil {
		panic(targetPanic{"errors: target cannot be nil"})
	}
	pt, ok := tgt.t.Underlying().(*types.Pointer)
	if !ok || tgt.v.(*value) == nil {
		panic(targetPanic{"errors: target must be a non-nil pointer"})
	}
	T := pt.Elem()
	cell := tgt.v.(*value)
	var walk func(e iface) bool
	walk = func(e iface) bool {
		if e.t == nil {
			return false
		}
		if it, ok := T.Underlying().(*types.Interface); ok {
			if types.Implements(e.t, it) {
				*cell = e
				return true
			}
		} else if types.Identical(e.t, T) {
			*cell = e.v
			return true
		}
		if fn := i.hasMethod(e.t, "As"); fn != nil && fn.Signature.Params().Len() == 1 {
			if i.decide(call(i, fr, token.NoPos, fn, []value{e.v, tgt})) {
				return true
			}
		}
		for _, u := range i.unwrapErr(fr, e) {
			if walk(u) {
				return true
			}
		}
		return false
	}
	return walk(err)
}

// ---- sort / misc ----

func init() {
	isort := func(fr *frame, s []value, less value) {
		for a := 1; a < len(s); a++ {
			for b := a; b > 0; b-- {
				if fr.i.decide(call(fr.i, fr, token.NoPos, less, []value{b, b - 1})) {
					s[b], s[b-1] = s[b-1], s[b]
				} else {
					break
				}
			}
		}
	}
	externals["sort.Slice"] = func(fr *frame, args []value) value {
		s, _ := args[0].(iface).v.([]value)
		isort(fr, s, args[1])
		return nil
	}
	externals["sort.SliceStable"] = externals["sort.Slice"]
	externals["sort.Strings"] = func(fr *frame, args []value) value {
		s := args[0].([]value)
		i := fr.i
		for a := 1; a < len(s); a++ {
			for b := a; b > 0; b-- {
				if i.decide(i.binop(token.LSS, types.Typ[types.String], s[b], s[b-1])) {
					s[b], s[b-1] = s[b-1], s[b]
				} else {
					break
				}
			}
		}
		return nil
	}
	externals["runtime.SetFinalizer"] = func(fr *frame, args []value) value { return nil }
	externals["runtime.KeepAlive"] = func(fr *frame, args []value) value { return nil }
	externals["runtime/debug.Stack"] = func(fr *frame, args []value) value { return []value{} }
	externals["runtime.Stack"] = func(fr *frame, args []value) value { return 0 }
	externals["runtime.Callers"] = func(fr *frame, args []value) value { return 0 }
	externals["runtime.Caller"] = func(fr *frame, args []value) value { return tuple{uintptr(0), "", 0, false} }
	externals["(*strings.Builder).copyCheck"] = func(fr *frame, args []value) value { return nil }
	externals["(*strings.Builder).String"] = func(fr *frame, args []value) value {
		st := (*derefCell(args[0])).(structure)
		buf, _ := st[1].([]value)
		return normStr(append(symstr(nil), buf...))
	}
	externals["maps.clone"] = func(fr *frame, args []value) value {
		m := args[0].(iface)
		am, _ := m.v.(*amap)
		if am == nil {
			return m
		}
		c := &amap{keys: append([]value(nil), am.keys...), vals: append([]value(nil), am.vals...)}
		return iface{t: m.t, v: c}
	}
	externals["internal/bytealg.IndexByteString"] = func(fr *frame, args []value) value {
		return strings.IndexByte(concStr(args[0]), args[1].(byte))
	}
	externals["internal/bytealg.CountString"] = func(fr *frame, args []value) value {
		return strings.Count(concStr(args[0]), string([]byte{args[1].(byte)}))
	}
	externals["internal/bytealg.IndexString"] = func(fr *frame, args []value) value {
		return strings.Index(concStr(args[0]), concStr(args[1]))
	}
	externals["internal/bytealg.LastIndexByteString"] = func(fr *frame, args []value) value {
		return strings.LastIndexByte(concStr(args[0]), args[1].(byte))
	}
	externals["internal/bytealg.MakeNoZero"] = func(fr *frame, args []value) value {
		n := args[0].(int)
		s := make([]value, n)
		for k := range s {
			s[k] = uint8(0)
		}
		return s
	}
	externals["internal/stringslite.Index"] = func(fr *frame, args []value) value {
		return strings.Index(concStr(args[0]), concStr(args[1]))
	}
	externals["strings.Index"] = externals["internal/stringslite.Index"]
	externals["strings.IndexByte"] = externals["internal/bytealg.IndexByteString"]
	externals["internal/stringslite.IndexByte"] = externals["internal/bytealg.IndexByteString"]
	externals["(*internal/godebug.Setting).Value"] = func(fr *frame, args []value) value { return "" }
	externals["(*internal/godebug.Setting).IncNonDefault"] = func(fr *frame, args []value) value { return nil }
	externals["internal/godebug.New"] = func(fr *frame, args []value) value { return (*value)(nil) }
}

func concStr(v value) string {
	switch v := v.(type) {
	case string:
		return v
	case symstr:
		if s, ok := symstrConcrete(v); ok {
			return s
		}
	}
	panic(unsupported{fmt.Sprintf("string library function on a symbolic string (%T)", v)})
}

// ---- randomness ----

func init() {
	fill := func(buf []value) {
		for k := range buf {
			buf[k] = uint8(0xC0 + k%32)
		}
	}
	externals["io.ReadFull"] = func(fr *frame, args []value) value {
		r := args[0].(iface)
		buf := args[1].([]value)
		if r.t == nil || strings.Contains(r.t.String(), "crypto/") {
			fill(buf)
			return tuple{len(buf), iface{}}
		}
		// generic reader: loop over Read
		n := 0
		for n < len(buf) {
			res := fr.i.callMethod(fr, r, "Read", buf[n:]).(tuple)
			k := res[0].(int)
			n += k
			if e := res[1].(iface); e.t != nil {
				if n >= len(buf) {
					break
				}
				return tuple{n, e}
			}
			if k == 0 {
				panic(unsupported{"io.ReadFull: reader returned 0, nil"})
			}
		}
		return tuple{n, iface{}}
	}
	externals["crypto/rand.Read"] = func(fr *frame, args []value) value {
		buf := args[0].([]value)
		fill(buf)
		return tuple{len(buf), iface{}}
	}
}

func init() {
	// slices.overlaps uses unsafe pointer arithmetic: decide it on the boxed representation
	externals["slices.overlaps"] = func(fr *frame, args []value) value {
		a, _ := args[0].([]value)
		b, _ := args[1].([]value)
		if len(a) == 0 || len(b) == 0 {
			return false
		}
		// two host slices overlap iff some element address coincides
		a0, a1 := uintptr(unsafe.Pointer(&a[0])), uintptr(unsafe.Pointer(&a[len(a)-1]))
		b0, b1 := uintptr(unsafe.Pointer(&b[0])), uintptr(unsafe.Pointer(&b[len(b)-1]))
		return a0 <= b1 && b0 <= a1
	}
}

// ---- strconv on symbolic numbers (contract: Parse(Format(v)) = v iff v fits) ----

func (i *interpreter) decStrEq(x decStr, y value) value {
	switch y := y.(type) {
	case decStr:
		return i.eqv(types.Typ[types.Int64], x.n, y.n)
	case string:
		// canonical decimal text?
		b, ok := new(big.Int).SetString(y, 10)
		if !ok || b.String() != y {
			return false
		}
		return &sym{term: "(= " + x.n.term + " " + bigTerm(b) + ")", kind: kBool}
	}
	panic(unsupported{fmt.Sprintf("comparison of a formatted number with %T", y)})
}

func strErr(fr *frame, msg string) iface {
	es := fr.i.prog.ImportedPackage("errors").Type("errorString").Type()
	var s value = structure{msg}
	return iface{t: types.NewPointer(es), v: &s}
}

func init() {
	format := func(fr *frame, args []value) value {
		n, ok := args[0].(*sym)
		if !ok {
			return fallthroughMarker{}
		}
		if b, isConc := args[1].(int); !isConc || b != 10 {
			panic(unsupported{"strconv.Format of a symbolic number in a base other than 10"})
		}
		return decStr{n}
	}
	externals["strconv.FormatUint"] = format
	externals["strconv.FormatInt"] = format
	externals["strconv.Itoa"] = func(fr *frame, args []value) value {
		n, ok := args[0].(*sym)
		if !ok {
			return fallthroughMarker{}
		}
		return decStr{n}
	}
	parse := func(signed bool) externalFn {
		return func(fr *frame, args []value) value {
			d, ok := args[0].(decStr)
			if !ok {
				if _, isSym := args[0].(*sym); isSym {
					panic(unsupported{"strconv.Parse of an atom string"})
				}
				return fallthroughMarker{}
			}
			base, _ := args[1].(int)
			bits, _ := args[2].(int)
			if base != 10 && base != 0 {
				panic(unsupported{"strconv.Parse of a formatted number in a base other than 10"})
			}
			if bits == 0 {
				bits = 64
			}
			var k types.BasicKind
			switch {
			case signed:
				k = map[int]types.BasicKind{8: types.Int8, 16: types.Int16, 32: types.Int32, 64: types.Int64}[bits]
			default:
				k = map[int]types.BasicKind{8: types.Uint8, 16: types.Uint16, 32: types.Uint32, 64: types.Uint64}[bits]
			}
			if signed {
				// the text of an unsigned value never carries a sign; of a signed one it may
			}
			inRange := &sym{term: rangeConstraint(d.n.term, k), kind: kBool}
			res := types.Int64
			if !signed {
				res = types.Uint64
			}
			if fr.i.decide(inRange) {
				return tuple{&sym{term: d.n.term, kind: kInt, bk: res}, iface{}}
			}
			if !signed {
				// a negative number's text starts with '-': syntax error, value 0
				neg := &sym{term: "(< " + d.n.term + " 0)", kind: kBool}
				if fr.i.decide(neg) {
					return tuple{uint64(0), strErr(fr, "strconv.ParseUint: invalid syntax")}
				}
			}
			lo, hi := kindRange(k)
			over := &sym{term: "(> " + d.n.term + " " + bigTerm(hi) + ")", kind: kBool}
			if fr.i.decide(over) {
				return tuple{valueOfKind(res, hi), strErr(fr, "strconv.Parse: value out of range")}
			}
			return tuple{valueOfKind(res, lo), strErr(fr, "strconv.Parse: value out of range")}
		}
	}
	externals["strconv.ParseInt"] = parse(true)
	externals["strconv.ParseUint"] = parse(false)
	externals["internal/stringslite.Clone"] = func(fr *frame, args []value) value { return args[0] }
	externals["strings.Clone"] = func(fr *frame, args []value) value { return args[0] }
}

// ---- zstd (contract: DecodeAll(EncodeAll(src, dst)[len(dst):]) = src; EncodeAll appends to dst) ----

func init() {
	const magic = uint8(0xB5)
	externals["(*github.com/klauspost/compress/zstd.Encoder).EncodeAll"] = func(fr *frame, args []value) value {
		src, _ := args[1].([]value)
		dst, _ := args[2].([]value)
		dst = append(dst, magic)
		dst = append(dst, src...)
		return dst
	}
	externals["(*github.com/klauspost/compress/zstd.Decoder).DecodeAll"] = func(fr *frame, args []value) value {
		in, _ := args[1].([]value)
		dst, _ := args[2].([]value)
		if len(in) == 0 {
			return tuple{dst, strErr(fr, "zstd: unexpected EOF")}
		}
		ok := fr.i.eqv(types.Typ[types.Uint8], in[0], magic)
		if !fr.i.decide(ok) {
			return tuple{dst, strErr(fr, "zstd: magic number mismatch")}
		}
		return tuple{append(dst, in[1:]...), iface{}}
	}
	newPtr := func(fr *frame, args []value) value {
		var v value = structure{}
		return tuple{&v, iface{}}
	}
	externals["github.com/klauspost/compress/zstd.NewWriter"] = newPtr
	externals["github.com/klauspost/compress/zstd.NewReader"] = newPtr
	noOpt := func(fr *frame, args []value) value { return (*ssa.Function)(nil) }
	externals["github.com/klauspost/compress/zstd.WithEncoderConcurrency"] = noOpt
	externals["github.com/klauspost/compress/zstd.WithWindowSize"] = noOpt
	externals["github.com/klauspost/compress/zstd.WithDecoderConcurrency"] = noOpt
}

func init() {
	externals["os.Getenv"] = func(fr *frame, args []value) value { return "" }
	externals["os.LookupEnv"] = func(fr *frame, args []value) value { return tuple{"", false} }
}

func init() {
	// errors.init needs reflectlite.TypeOf((*error)(nil)).Elem(); errors.As/Is are intrinsics
	externals["internal/reflectlite.TypeOf"] = func(fr *frame, args []value) value { return iface{} }
	externals["errors.init"] = func(fr *frame, args []value) value {
		// hand initialisation: errorType (reflectlite) is only used by As/Is, which are intrinsics
		pkg := fr.i.prog.ImportedPackage("errors")
		if g := pkg.Var("ErrUnsupported"); g != nil {
			var cell value = strErr(fr, "unsupported operation")
			fr.i.globals[g] = &cell
		}
		return nil
	}
}

func init() {
	// YAML text is not inspected by state code: opaque fixed bytes
	externals["go.yaml.in/yaml/v4.Marshal"] = func(fr *frame, args []value) value {
		return tuple{[]value{uint8('y'), uint8('a'), uint8('m'), uint8('l')}, iface{}}
	}
}

func init() {
	// math/rand: outputs are unconstrained by contract; a fixed mid value keeps backoff jitter neutral
	externals["math/rand.Float64"] = func(fr *frame, args []value) value { return float64(0.5) }
	externals["math/rand/v2.Float64"] = func(fr *frame, args []value) value { return float64(0.5) }
	externals["math/rand.Int63n"] = func(fr *frame, args []value) value { return int64(0) }
	externals["math/rand.Intn"] = func(fr *frame, args []value) value { return 0 }
}

func init() {
	// zap.Stack captures the host stack through pools initialised in zap's init: a skipped field instead
	stackField := func(fr *frame, args []value) value {
		return zero(fr.fn.Signature.Results().At(0).Type())
	}
	externals["go.uber.org/zap.Stack"] = stackField
	externals["go.uber.org/zap.StackSkip"] = stackField
}

func init() {
	// expvar metrics do not influence control flow: no-op objects
	newObj := func(fr *frame, args []value) value {
		t := fr.fn.Signature.Results().At(0).Type()
		var v value = zero(mustDeref(t))
		return &v
	}
	externals["expvar.NewMap"] = newObj
	externals["expvar.NewInt"] = newObj
	externals["expvar.NewFloat"] = newObj
	externals["expvar.NewString"] = newObj
	noop := func(fr *frame, args []value) value { return nil }
	for _, m := range []string{"(*expvar.Map).Add", "(*expvar.Map).AddFloat", "(*expvar.Map).Set", "(*expvar.Map).Delete", "(*expvar.Int).Set", "(*expvar.Int).Add", "(*expvar.Float).Set", "(*expvar.Float).Add", "expvar.Publish"} {
		externals[m] = noop
	}
	externals["(*expvar.Map).Init"] = func(fr *frame, args []value) value { return args[0] }
	externals["(*expvar.Int).Value"] = func(fr *frame, args []value) value { return int64(0) }
}
