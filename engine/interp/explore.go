package interp

// Exploration of all feasible paths of a harness function by re-execution of
// decision vectors, on a pool of workers each owning one solver process.

import (
	"fmt"
	"go/token"
	"go/types"
	"os"
	"runtime"
	"runtime/debug"
	"sort"
	"strings"
	"sync"
	"time"

	"golang.org/x/tools/go/ssa"
)

type Config struct {
	Unwind          int
	MaxDepth        int
	MaxPaths        int
	MaxInstr        int
	MaxAlloc        int
	Preempt         int
	Workers         int
	SolverTimeoutMs int
	CrossCheck      bool // re-ask assertion queries of cvc5
	ValidateSamples int  // passing paths whose model is kept for native validation
	MaxFindings     int  // per (label,kind)
	Estimate        int  // > 0: Knuth estimator with this many random probes instead of exploration
	Trace           bool
	Deadline        time.Time
}

func DefaultConfig() Config {
	return Config{Unwind: 40, MaxDepth: 4000, MaxPaths: 2_000_000, MaxInstr: 3_000_000, MaxAlloc: 64, Preempt: 1,
		Workers: 14, SolverTimeoutMs: 20000, ValidateSamples: 20, MaxFindings: 2}
}

type InputValue struct {
	Name  string `json:"name"`
	Kind  string `json:"kind"`
	Value string `json:"value"`
}

type Finding struct {
	Harness string       `json:"harness"`
	Kind    string       `json:"kind"` // assert | panic | deadlock | mustterminate
	Label   string       `json:"label"`
	Case    string       `json:"case"`
	Msg     string       `json:"msg"`
	Site    string       `json:"site,omitempty"`
	Path    []int32      `json:"path"`
	Nondet  []int32      `json:"nondet"`
	Inputs  []InputValue `json:"inputs"`
	Threads int          `json:"threads"`
	ModelOK bool         `json:"model_ok"`
}

func (f *Finding) Key() string { return f.Kind + "|" + f.Label + "|" + f.Case }

type Sample struct {
	Path   []int32      `json:"path"`
	Nondet []int32      `json:"nondet"`
	Inputs []InputValue `json:"inputs"`
	Obs    []InputValue `json:"observations"`
	Covers []string     `json:"covers,omitempty"`
	Threads int         `json:"threads"`
}

type Explorer struct {
	Tier     string
	Cfg      Config
	Prog     *ssa.Program
	Fn       *ssa.Function
	Sizes    types.Sizes
	mu       sync.Mutex
	cond     *sync.Cond
	frontier [][]int32
	active   int
	stop     bool

	Paths        int
	Pruned       int
	Decisions    int64
	Switches     int64
	Instr        int64
	Covers       map[string]int
	Asserts      map[string]int
	Findings     []*Finding
	findingCount map[string]int
	Inconclusive map[string]int
	InconcPaths  [][]int32
	FuncInstr    map[string]int
	Stubs        map[string]int
	Samples      []*Sample
	Solver       SolverStats
	MaxThreads   int
	Wall         time.Duration
	EstSum       float64
}

type Worker struct {
	ex     *Explorer
	id     int
	z3     *solverProc
	cvc    *solverProc
	stats  SolverStats
	stubs  map[string]int
	funcs  map[*ssa.Function]int
}

func (ex *Explorer) addDecision() {
	// racy counter is fine, but keep it exact
	ex.mu.Lock()
	ex.Decisions++
	ex.mu.Unlock()
}

func (ex *Explorer) push(prefix []int32) {
	ex.mu.Lock()
	ex.frontier = append(ex.frontier, prefix)
	ex.mu.Unlock()
	ex.cond.Signal()
}

// pop blocks until a prefix is available or exploration is finished.
func (ex *Explorer) pop() ([]int32, bool) {
	ex.mu.Lock()
	defer ex.mu.Unlock()
	for {
		if ex.stop {
			return nil, false
		}
		if n := len(ex.frontier); n > 0 {
			p := ex.frontier[n-1]
			ex.frontier = ex.frontier[:n-1]
			ex.active++
			return p, true
		}
		if ex.active == 0 {
			ex.cond.Broadcast()
			return nil, false
		}
		ex.cond.Wait()
	}
}

func (ex *Explorer) done() {
	ex.mu.Lock()
	ex.active--
	if ex.active == 0 && len(ex.frontier) == 0 {
		ex.cond.Broadcast()
	}
	ex.mu.Unlock()
}

func (w *Worker) noteStub(fn *ssa.Function) {
	name := fn.String()
	if strings.Contains(name, "/zzverif/verif.") {
		return
	}
	w.stubs[name]++
}

// check asks whether pc ∧ extra is satisfiable.
func (w *Worker) check(p *pathState, extra string) string {
	t0 := time.Now()
	r, _ := w.z3.check(p.decls, p.pc, extra, nil)
	w.account(r, t0)
	if w.z3.dead {
		w.restart()
	}
	return r
}

func (w *Worker) account(r string, t0 time.Time) {
	w.stats.Queries++
	w.stats.Seconds += time.Since(t0).Seconds()
	switch r {
	case "sat":
		w.stats.Sat++
	case "unsat":
		w.stats.Unsat++
	default:
		w.stats.Unknown++
	}
}

func (w *Worker) restart() {
	w.z3.close()
	z, err := startSolver("z3", w.ex.Cfg.SolverTimeoutMs)
	if err == nil {
		w.z3 = z
	}
}

// checkModel asks sat(pc ∧ extra) and returns values of the given terms.
func (w *Worker) checkModel(p *pathState, extra string, terms []string) (string, map[string]string) {
	t0 := time.Now()
	r, vals := w.z3.check(p.decls, p.pc, extra, terms)
	w.account(r, t0)
	if w.z3.dead {
		w.restart()
	}
	return r, vals
}

// crossCheck re-asks an assertion query of cvc5; returns false on disagreement.
func (w *Worker) crossCheck(p *pathState, extra string, expect string) bool {
	if w.cvc == nil {
		return true
	}
	r, _ := w.cvc.check(p.decls, p.pc, extra, nil)
	w.stats.CrossChecked++
	if r == "unknown" {
		return true
	}
	if r != expect {
		w.stats.Disagree++
		return false
	}
	return true
}

func (ex *Explorer) Run() {
	t0 := time.Now()
	ex.cond = sync.NewCond(&ex.mu)
	ex.Covers = map[string]int{}
	ex.Asserts = map[string]int{}
	ex.findingCount = map[string]int{}
	ex.Inconclusive = map[string]int{}
	ex.FuncInstr = map[string]int{}
	ex.Stubs = map[string]int{}
	ex.frontier = [][]int32{{}}
	for k := 1; k < ex.Cfg.Estimate; k++ {
		ex.frontier = append(ex.frontier, []int32{})
	}
	if op := os.Getenv("GOSMT_ONLYPATH"); op != "" {
		var pre []int32
		for _, f := range strings.FieldsFunc(op, func(r rune) bool { return r == ',' || r == ' ' || r == '[' || r == ']' }) {
			var v int
			fmt.Sscan(f, &v)
			pre = append(pre, int32(v))
		}
		ex.frontier = [][]int32{pre}
		ex.Cfg.MaxPaths = 1
		ex.Cfg.Workers = 1
	}
	n := ex.Cfg.Workers
	if n < 1 {
		n = 1
	}
	var wg sync.WaitGroup
	workers := make([]*Worker, n)
	for k := 0; k < n; k++ {
		w := &Worker{ex: ex, id: k, stubs: map[string]int{}, funcs: map[*ssa.Function]int{}}
		z, err := startSolver("z3", ex.Cfg.SolverTimeoutMs)
		if err != nil {
			fmt.Fprintln(os.Stderr, "gosmt: cannot start solver:", err)
			os.Exit(2)
		}
		w.z3 = z
		if ex.Cfg.CrossCheck {
			if c, err := startSolver("cvc5", ex.Cfg.SolverTimeoutMs); err == nil {
				w.cvc = c
			}
		}
		workers[k] = w
		wg.Add(1)
		go func() {
			defer wg.Done()
			for {
				prefix, ok := ex.pop()
				if !ok {
					return
				}
				w.runPath(prefix)
				ex.done()
			}
		}()
	}
	stopProgress := make(chan struct{})
	go func() {
		tk := time.NewTicker(15 * time.Second)
		defer tk.Stop()
		for {
			select {
			case <-stopProgress:
				return
			case <-tk.C:
				ex.mu.Lock()
				fmt.Fprintf(os.Stderr, "gosmt: ... %s: %d paths, frontier %d, %d findings, %.0fs\n", ex.Fn.Name(), ex.Paths, len(ex.frontier), len(ex.Findings), time.Since(t0).Seconds())
				ex.mu.Unlock()
			}
		}
	}()
	wg.Wait()
	close(stopProgress)
	for _, w := range workers {
		w.z3.close()
		w.cvc.close()
		ex.Solver.add(w.stats)
		for k, v := range w.stubs {
			ex.Stubs[k] += v
		}
		for f, c := range w.funcs {
			ex.FuncInstr[f.String()] += c
		}
	}
	ex.Wall = time.Since(t0)
}

func (ex *Explorer) noteInconclusive(reason string, path []int32) {
	ex.mu.Lock()
	ex.Inconclusive[reason]++
	if len(ex.InconcPaths) < 5 {
		ex.InconcPaths = append(ex.InconcPaths, append([]int32(nil), path...))
	}
	ex.mu.Unlock()
}

func (w *Worker) runPath(prefix []int32) {
	ex := w.ex
	if !ex.Cfg.Deadline.IsZero() && time.Now().After(ex.Cfg.Deadline) {
		ex.noteInconclusive("time budget exhausted", prefix)
		ex.mu.Lock()
		ex.stop = true
		ex.cond.Broadcast()
		ex.mu.Unlock()
		return
	}
	p := newPathState(ex, w, prefix)
	var mode Mode
	if ex.Cfg.Trace {
		mode |= EnableTracing
	}
	i := newInterpreter(ex.Prog, w, p, ex.Sizes, mode)
	p.interp = i
	if trailOn {
		defer func() {
			fmt.Fprintf(os.Stderr, "---- path %v\n%s\n", p.taken, strings.Join(p.trail, "\n"))
		}()
	}
	var perr any
	func() {
		defer func() {
			if r := recover(); r != nil {
				perr = r
				if os.Getenv("GOSMT_STACK") != "" {
					if _, ok := r.(pathAbort); !ok {
						fmt.Fprintf(os.Stderr, "path ended with %T %v\n%s\n", r, r, debug.Stack())
					}
				}
			}
		}()
		call(i, nil, token.NoPos, ex.Fn, nil)
	}()
	i.S.killAll()
	if _, ok := perr.(killSentinel); ok {
		perr = i.S.abort
	} else if perr == nil && i.S.abort != nil {
		perr = i.S.abort
	}
	w.finishPath(i, p, perr)
}

func panicText(r any) string {
	switch r := r.(type) {
	case targetPanic:
		if e, ok := r.v.(iface); ok {
			return fmt.Sprintf("panic: (%v) %s", e.t, toString(e.v))
		}
		return "panic: " + toString(r.v)
	case runtime.Error:
		return "panic: " + r.Error()
	case error:
		return "panic: " + r.Error()
	}
	return fmt.Sprintf("panic: %v", r)
}

func (w *Worker) finishPath(i *interpreter, p *pathState, perr any) {
	ex := w.ex
	for f, c := range i.funcInstr {
		w.funcs[f] += c
	}
	ex.mu.Lock()
	ex.Paths++
	ex.EstSum += p.weight
	ex.Switches += int64(i.S.switches)
	ex.Instr += int64(i.ninstr)
	if len(i.S.threads) > ex.MaxThreads {
		ex.MaxThreads = len(i.S.threads)
	}
	if ex.Paths >= ex.Cfg.MaxPaths && !ex.stop {
		ex.stop = true
		ex.Inconclusive["path budget exhausted"]++
		ex.cond.Broadcast()
	}
	ex.mu.Unlock()

	completed := false
	switch r := perr.(type) {
	case nil:
		completed = true
	case pathAbort:
		switch r.reason {
		case "violation":
			// already recorded
		case "deadlock":
			w.report(i, p, &Finding{Kind: "deadlock", Label: "deadlock", Msg: "all goroutines are blocked and no timer is pending" + i.S.describeBlocked()}, "")
		default:
			ex.mu.Lock()
			ex.Pruned++
			ex.mu.Unlock()
		}
	case inconclusive:
		ex.noteInconclusive(r.reason, p.taken)
	case unsupported:
		ex.noteInconclusive("UNSUPPORTED "+r.msg, p.taken)
	case engineBug:
		ex.noteInconclusive("ENGINE "+r.msg, p.taken)
	case exitPanic:
		ex.noteInconclusive("os.Exit called", p.taken)
	case targetPanic, runtime.Error:
		if re, ok := r.(runtime.Error); ok {
			if _, isTA := re.(*runtime.TypeAssertionError); isTA {
				ex.noteInconclusive("ENGINE type confusion: "+re.Error()+" @ "+firstLine(p.panicSite), p.taken)
				break
			}
		}
		w.report(i, p, &Finding{Kind: "panic", Label: "no-panic", Msg: panicText(r), Site: p.panicSite}, "")
	default:
		ex.noteInconclusive(fmt.Sprintf("ENGINE unexpected panic %T: %v @ %s", perr, perr, firstLine(p.panicSite)), p.taken)
	}
	ex.mu.Lock()
	for _, c := range p.covers {
		ex.Covers[c]++
	}
	ex.mu.Unlock()
	if completed {
		w.maybeSample(i, p)
	}
}

func firstLine(s string) string {
	if k := strings.IndexByte(s, '\n'); k >= 0 {
		return s[:k]
	}
	return s
}

func (s *scheduler) describeBlocked() string {
	n := 0
	for _, t := range s.threads {
		if !t.done {
			n++
		}
	}
	out := fmt.Sprintf(" (%d live goroutines)", n)
	if blockedOn {
		for _, t := range s.threads {
			if !t.done {
				out += fmt.Sprintf("\n\t%s blocked=%v at:%s", t.name, t.blocked != nil, t.where)
			}
		}
	}
	return out
}

// inputTerms lists the terms whose values make up a replay.
func (p *pathState) inputTerms() []string {
	var ts []string
	seen := map[string]bool{}
	for _, in := range p.inputs {
		if in.Term != "" && !seen[in.Term] {
			seen[in.Term] = true
			ts = append(ts, in.Term)
		}
	}
	for _, s := range p.strs.sorted {
		ts = append(ts, p.strConst(s))
	}
	for _, la := range p.lenAtoms {
		ts = append(ts, la[0])
	}
	return ts
}

// report records a violation; extra is the additional constraint under which
// the model is to be taken ("" = the path condition itself).
func (w *Worker) report(i *interpreter, p *pathState, f *Finding, extra string) {
	ex := w.ex
	f.Harness = ex.Fn.String()
	f.Case = p.caseLabel
	f.Path = append([]int32(nil), p.taken...)
	f.Nondet = append([]int32(nil), p.nondet...)
	f.Threads = len(i.S.threads)
	if blockedOn {
		fmt.Fprintf(os.Stderr, "finding %q: threads%s\n", f.Label, i.S.describeBlocked())
	}
	ex.mu.Lock()
	cnt := ex.findingCount[f.Key()]
	ex.findingCount[f.Key()]++
	ex.mu.Unlock()
	if cnt >= ex.Cfg.MaxFindings {
		return
	}
	terms := p.inputTerms()
	r, vals := w.checkModel(p, extra, terms)
	if r == "sat" {
		f.ModelOK = true
		f.Inputs = p.renderInputs(vals)
	} else if len(terms) == 0 {
		f.ModelOK = true
	}
	ex.mu.Lock()
	ex.Findings = append(ex.Findings, f)
	ex.mu.Unlock()
}

func (w *Worker) maybeSample(i *interpreter, p *pathState) {
	ex := w.ex
	ex.mu.Lock()
	take := len(ex.Samples) < ex.Cfg.ValidateSamples
	if take {
		// reserve a slot
		ex.Samples = append(ex.Samples, nil)
	}
	idx := len(ex.Samples) - 1
	ex.mu.Unlock()
	if !take {
		return
	}
	terms := p.inputTerms()
	var obsTerms []string
	for _, o := range p.obs {
		if o.Term != "" {
			obsTerms = append(obsTerms, o.Term)
		}
	}
	all := append(append([]string(nil), terms...), obsTerms...)
	s := &Sample{Path: append([]int32(nil), p.taken...), Nondet: append([]int32(nil), p.nondet...), Covers: p.covers, Threads: len(i.S.threads)}
	if len(all) > 0 {
		r, vals := w.checkModel(p, "", all)
		if r != "sat" {
			ex.mu.Lock()
			ex.Samples[idx] = &Sample{Path: s.Path}
			ex.mu.Unlock()
			return
		}
		s.Inputs = p.renderInputs(vals)
		amap := p.atomStrings(vals)
		for _, o := range p.obs {
			v := o.Conc
			if o.Term != "" {
				v = vals[o.Term]
				if o.Kind == "atom" {
					v = amap[v]
				}
			}
			s.Obs = append(s.Obs, InputValue{Name: o.Label, Kind: o.Kind, Value: v})
		}
	} else {
		for _, o := range p.obs {
			s.Obs = append(s.Obs, InputValue{Name: o.Label, Kind: o.Kind, Value: o.Conc})
		}
	}
	ex.mu.Lock()
	ex.Samples[idx] = s
	ex.mu.Unlock()
}

// atomStrings maps model integer values of atoms to concrete strings that
// respect the order relative to the string constants of the path.
func (p *pathState) atomStrings(vals map[string]string) map[string]string {
	res := map[string]string{"0": ""}
	type cv struct {
		v string
		s string
	}
	// constants
	constVal := map[string]string{}
	for _, s := range p.strs.sorted {
		v := vals[p.strConst(s)]
		constVal[v] = s
		res[v] = s
	}
	// distinct atom values, sorted numerically
	var nums []string
	seen := map[string]bool{}
	for _, in := range p.inputs {
		if in.Kind != "atom" {
			continue
		}
		v := vals[in.Term]
		if v == "" || seen[v] {
			continue
		}
		seen[v] = true
		if _, ok := res[v]; !ok {
			nums = append(nums, v)
		}
	}
	sort.Slice(nums, func(a, b int) bool { return numLess(nums[a], nums[b]) })
	// walk: for each atom value find the greatest constant below it
	consts := append([]string(nil), p.strs.sorted...)
	constNums := make([]string, len(consts))
	for k, s := range consts {
		constNums[k] = vals[p.strConst(s)]
	}
	counter := map[string]int{}
	for _, v := range nums {
		base := ""
		for k := range consts {
			if numLess(constNums[k], v) {
				base = consts[k]
			}
		}
		counter[base]++
		// base + "\x01"... : successive values get longer suffixes => increasing
		res[v] = base + strings.Repeat("\x01", counter[base])
	}
	return res
}

func numLess(a, b string) bool {
	na, nb := strings.HasPrefix(a, "-"), strings.HasPrefix(b, "-")
	if na != nb {
		return na
	}
	if na {
		a, b = b[1:], a[1:]
	}
	if len(a) != len(b) {
		return len(a) < len(b)
	}
	return a < b
}

func (p *pathState) renderInputs(vals map[string]string) []InputValue {
	amap := p.atomStrings(vals)
	var res []InputValue
	for _, in := range p.inputs {
		v := in.Conc
		if in.Term != "" {
			v = vals[in.Term]
			if in.Kind == "atom" {
				if s, ok := amap[v]; ok {
					v = s
				}
			}
		}
		res = append(res, InputValue{Name: in.Name, Kind: in.Kind, Value: v})
	}
	return res
}

// NewExplorer prepares the exploration of harness function fn.
func NewExplorer(prog *ssa.Program, fn *ssa.Function, sizes types.Sizes, cfg Config, tier string) *Explorer {
	return &Explorer{Prog: prog, Fn: fn, Sizes: sizes, Cfg: cfg, Tier: tier}
}

// ConcreteRun re-executes the harness on the SSA with the concrete input
// values and recorded nondeterministic choices of a finding (no solver), and
// returns what happened: "" (completed), or kind|label|case of the violation.
func ConcreteRun(prog *ssa.Program, fn *ssa.Function, sizes types.Sizes, cfg Config, tier string, inputs []InputValue, nondet []int32) (outcome string, detail string) {
	ex := NewExplorer(prog, fn, sizes, cfg, tier)
	ex.cond = sync.NewCond(&ex.mu)
	ex.Covers = map[string]int{}
	ex.Asserts = map[string]int{}
	ex.findingCount = map[string]int{}
	ex.Inconclusive = map[string]int{}
	ex.FuncInstr = map[string]int{}
	ex.Stubs = map[string]int{}
	ex.Cfg.ValidateSamples = 0
	w := &Worker{ex: ex, stubs: map[string]int{}, funcs: map[*ssa.Function]int{}}
	z, err := startSolver("z3", cfg.SolverTimeoutMs)
	if err != nil {
		return "error", err.Error()
	}
	w.z3 = z
	defer z.close()
	p := newPathState(ex, w, nil)
	p.concrete = inputs
	if p.concrete == nil {
		p.concrete = []InputValue{}
	}
	p.concNondet = nondet
	i := newInterpreter(prog, w, p, sizes, 0)
	var perr any
	func() {
		defer func() {
			if r := recover(); r != nil {
				perr = r
			}
		}()
		call(i, nil, token.NoPos, fn, nil)
	}()
	i.S.killAll()
	if _, ok := perr.(killSentinel); ok {
		perr = i.S.abort
	} else if perr == nil && i.S.abort != nil {
		perr = i.S.abort
	}
	w.finishPath(i, p, perr)
	if len(ex.Findings) > 0 {
		f := ex.Findings[0]
		return f.Key(), f.Msg
	}
	for r := range ex.Inconclusive {
		return "inconclusive", r
	}
	if ex.Pruned > 0 {
		return "pruned", ""
	}
	return "", ""
}
