package interp

// Contracts for cryptographic libraries (outside the claim of every check):
//  - PGP (gopenpgp helper): Dec(priv_k, Enc(pub_k, m)) = m; any other key or text fails.
//    Model keys are the strings "pub:<id>" / "priv:<id>".
//  - HMAC-SHA256: computed for real on concrete inputs (host crypto); symbolic inputs unsupported.

import (
	"crypto/hmac"
	"crypto/sha256"
	"encoding/hex"
	"fmt"
	"go/types"
	"strings"
)

type ehmac struct {
	key []byte
	msg []byte
}

func concBytes(v value, what string) []byte {
	s, _ := v.([]value)
	out := make([]byte, len(s))
	for k, e := range s {
		b, ok := e.(uint8)
		if !ok {
			panic(unsupported{what + " on symbolic bytes"})
		}
		out[k] = b
	}
	return out
}

func boxBytes(b []byte) []value {
	out := make([]value, len(b))
	for k, x := range b {
		out[k] = x
	}
	return out
}

func init() {
	const helperPkg = "github.com/ProtonMail/gopenpgp/v2/helper."
	externals[helperPkg+"EncryptBinaryMessageArmored"] = func(fr *frame, args []value) value {
		pub := concStr(args[0])
		data := concBytes(args[1], "PGP encryption")
		if !strings.HasPrefix(pub, "pub:") {
			return tuple{"", strErr(fr, "gopenpgp: unable to parse public key")}
		}
		n, _ := fr.i.side["pgp-counter"].(int)
		fr.i.side["pgp-counter"] = n + 1
		return tuple{fmt.Sprintf("-----PGP %d %s %s-----", n, pub[4:], hex.EncodeToString(data)), iface{}}
	}
	externals[helperPkg+"DecryptBinaryMessageArmored"] = func(fr *frame, args []value) value {
		priv := concStr(args[0])
		ct := concStr(args[2])
		if !strings.HasPrefix(priv, "priv:") {
			return tuple{[]value(nil), strErr(fr, "gopenpgp: unable to parse private key")}
		}
		var n int
		var id, hx string
		if _, err := fmt.Sscanf(ct, "-----PGP %d %s %s", &n, &id, &hx); err != nil || !strings.HasSuffix(hx, "-----") {
			return tuple{[]value(nil), strErr(fr, "gopenpgp: unable to parse message")}
		}
		hx = strings.TrimSuffix(hx, "-----")
		if id != priv[5:] {
			return tuple{[]value(nil), strErr(fr, "gopenpgp: unable to decrypt message: incorrect key")}
		}
		data, err := hex.DecodeString(hx)
		if err != nil {
			return tuple{[]value(nil), strErr(fr, "gopenpgp: corrupt message")}
		}
		return tuple{boxBytes(data), iface{}}
	}
	externals["crypto/sha256.New"] = func(fr *frame, args []value) value { return iface{} }
	externals["crypto/hmac.New"] = func(fr *frame, args []value) value {
		pkg := fr.i.prog.ImportedPackage("crypto/internal/fips140/hmac")
		if pkg == nil {
			panic(unsupported{"crypto/hmac.New: package crypto/internal/fips140/hmac not loaded"})
		}
		t := pkg.Type("HMAC").Type()
		var cell value = zero(t)
		p := &cell
		fr.i.side[p] = &ehmac{key: concBytes(args[1], "HMAC key")}
		return iface{t: types.NewPointer(t), v: p}
	}
	hm := func(fr *frame, recv value) *ehmac {
		h, ok := fr.i.side[recv.(*value)].(*ehmac)
		if !ok {
			panic(unsupported{"HMAC object not created by hmac.New"})
		}
		return h
	}
	const hp = "(*crypto/internal/fips140/hmac.HMAC)."
	externals[hp+"Write"] = func(fr *frame, args []value) value {
		h := hm(fr, args[0])
		b := concBytes(args[1], "HMAC message")
		h.msg = append(h.msg, b...)
		return tuple{len(b), iface{}}
	}
	externals[hp+"Sum"] = func(fr *frame, args []value) value {
		h := hm(fr, args[0])
		m := hmac.New(sha256.New, h.key)
		m.Write(h.msg)
		in, _ := args[1].([]value)
		return append(in, boxBytes(m.Sum(nil))...)
	}
	externals[hp+"Reset"] = func(fr *frame, args []value) value { hm(fr, args[0]).msg = nil; return nil }
	externals[hp+"Size"] = func(fr *frame, args []value) value { return 32 }
	externals[hp+"BlockSize"] = func(fr *frame, args []value) value { return 64 }
}

func init() {
	externals["crypto/internal/constanttime.boolToUint8"] = func(fr *frame, args []value) value {
		switch b := args[0].(type) {
		case bool:
			if b {
				return uint8(1)
			}
			return uint8(0)
		case *sym:
			return &sym{term: "(ite " + b.term + " 1 0)", kind: kInt, bk: types.Uint8, mask: 1, maskOK: true}
		}
		panic(engineBug{"boolToUint8"})
	}
}
