package interp

// Symbolic scalars and their SMT-LIB terms.
//
// Integer mode is "lia": a Go integer of width w is an SMT Int constrained to
// its type's range; every operation that may leave the range is followed by an
// exact wrap-around (ite / mod 2^w), so Go's modular semantics are kept.

import (
	"encoding/hex"
	"fmt"
	"go/token"
	"go/types"
	"math/big"
	"sort"
	"strings"
)

type symKind uint8

const (
	kBool symKind = iota
	kInt
	kAtom // a string on which only ==, <, copying and map keying are used
)

type sym struct {
	term string
	kind symKind
	bk   types.BasicKind // for kInt: Go basic kind (width, signedness)
	// possibly-set bits for kInt when known (maskOK); used to turn | into +
	mask   uint64
	maskOK bool
	// byte provenance (exact simplification of encode/decode round trips):
	// shrSrc/shrN: this value is (shrSrc >> shrN) for an unsigned 64-bit shrSrc.
	// asmSrc/asmHave: this value is the sum over set bits k of asmHave of
	// byte k of asmSrc placed at byte position k+asmOff (asmOff may be negative
	// only transiently); when all 8 bytes are present at offset 0 the value is asmSrc.
	shrSrc  string
	shrN    uint
	asmSrc  string
	asmHave uint8
	asmOff  int
}

func isSym(v value) bool { _, ok := v.(*sym); return ok }

// symstr is a byte sequence of concrete length; elements are uint8 or *sym(uint8).
type symstr []value

type unsupported struct{ msg string }

func (u unsupported) String() string { return "UNSUPPORTED: " + u.msg }

// ---- integer kinds ----

func basicKindOf(t types.Type) types.BasicKind {
	if b, ok := t.Underlying().(*types.Basic); ok {
		k := b.Kind()
		switch k {
		case types.UntypedInt:
			return types.Int
		case types.UntypedRune:
			return types.Int32
		case types.UntypedBool:
			return types.Bool
		case types.UntypedString:
			return types.String
		}
		return k
	}
	return types.Invalid
}

func kindBits(k types.BasicKind) (bits uint, signed bool) {
	switch k {
	case types.Int, types.Int64:
		return 64, true
	case types.Int8:
		return 8, true
	case types.Int16:
		return 16, true
	case types.Int32:
		return 32, true
	case types.Uint, types.Uint64, types.Uintptr:
		return 64, false
	case types.Uint8:
		return 8, false
	case types.Uint16:
		return 16, false
	case types.Uint32:
		return 32, false
	}
	panic(fmt.Sprintf("kindBits: not an integer kind %v", k))
}

func isIntKind(k types.BasicKind) bool {
	switch k {
	case types.Int, types.Int8, types.Int16, types.Int32, types.Int64,
		types.Uint, types.Uint8, types.Uint16, types.Uint32, types.Uint64, types.Uintptr:
		return true
	}
	return false
}

func pow2(n uint) *big.Int { return new(big.Int).Lsh(big.NewInt(1), n) }

func kindRange(k types.BasicKind) (lo, hi *big.Int) {
	bits, signed := kindBits(k)
	if signed {
		h := pow2(bits - 1)
		return new(big.Int).Neg(h), new(big.Int).Sub(h, big.NewInt(1))
	}
	return big.NewInt(0), new(big.Int).Sub(pow2(bits), big.NewInt(1))
}

func bigTerm(b *big.Int) string {
	if b.Sign() < 0 {
		return "(- " + new(big.Int).Neg(b).String() + ")"
	}
	return b.String()
}

func rangeConstraint(term string, k types.BasicKind) string {
	lo, hi := kindRange(k)
	return "(and (<= " + bigTerm(lo) + " " + term + ") (<= " + term + " " + bigTerm(hi) + "))"
}

// wrapAddSub wraps a term known to lie within one modulus of the range.
func wrapNear(term string, k types.BasicKind) string {
	bits, _ := kindBits(k)
	lo, hi := kindRange(k)
	m := pow2(bits).String()
	return "(let ((w!x " + term + ")) (ite (> w!x " + bigTerm(hi) + ") (- w!x " + m + ") (ite (< w!x " + bigTerm(lo) + ") (+ w!x " + m + ") w!x)))"
}

// wrapAny wraps an arbitrary integer term into the range of k.
func wrapAny(term string, k types.BasicKind) string {
	bits, signed := kindBits(k)
	m := pow2(bits).String()
	if !signed {
		return "(mod " + term + " " + m + ")"
	}
	_, hi := kindRange(k)
	return "(let ((w!m (mod " + term + " " + m + "))) (ite (> w!m " + bigTerm(hi) + ") (- w!m " + m + ") w!m))"
}

// ---- conversion of concrete values to terms ----

func intTermOf(v value) (string, bool) {
	switch x := v.(type) {
	case int:
		return i64Term(int64(x)), true
	case int8:
		return i64Term(int64(x)), true
	case int16:
		return i64Term(int64(x)), true
	case int32:
		return i64Term(int64(x)), true
	case int64:
		return i64Term(x), true
	case uint:
		return fmt.Sprint(uint64(x)), true
	case uint8:
		return fmt.Sprint(uint64(x)), true
	case uint16:
		return fmt.Sprint(uint64(x)), true
	case uint32:
		return fmt.Sprint(uint64(x)), true
	case uint64:
		return fmt.Sprint(x), true
	case uintptr:
		return fmt.Sprint(uint64(x)), true
	}
	return "", false
}

func i64Term(x int64) string {
	if x < 0 {
		return "(- " + new(big.Int).Neg(big.NewInt(x)).String() + ")"
	}
	return fmt.Sprint(x)
}

// concrete integer as big.Int
func bigOf(v value) *big.Int {
	switch x := v.(type) {
	case int:
		return big.NewInt(int64(x))
	case int8:
		return big.NewInt(int64(x))
	case int16:
		return big.NewInt(int64(x))
	case int32:
		return big.NewInt(int64(x))
	case int64:
		return big.NewInt(x)
	case uint:
		return new(big.Int).SetUint64(uint64(x))
	case uint8:
		return new(big.Int).SetUint64(uint64(x))
	case uint16:
		return new(big.Int).SetUint64(uint64(x))
	case uint32:
		return new(big.Int).SetUint64(uint64(x))
	case uint64:
		return new(big.Int).SetUint64(x)
	case uintptr:
		return new(big.Int).SetUint64(uint64(x))
	}
	panic(fmt.Sprintf("bigOf: %T", v))
}

// concrete value of basic kind k from a big integer (already in range)
func valueOfKind(k types.BasicKind, b *big.Int) value {
	switch k {
	case types.Int:
		return int(b.Int64())
	case types.Int8:
		return int8(b.Int64())
	case types.Int16:
		return int16(b.Int64())
	case types.Int32:
		return int32(b.Int64())
	case types.Int64:
		return b.Int64()
	case types.Uint:
		return uint(b.Uint64())
	case types.Uint8:
		return uint8(b.Uint64())
	case types.Uint16:
		return uint16(b.Uint64())
	case types.Uint32:
		return uint32(b.Uint64())
	case types.Uint64:
		return b.Uint64()
	case types.Uintptr:
		return uintptr(b.Uint64())
	}
	panic(fmt.Sprintf("valueOfKind: %v", k))
}

// termOf renders any scalar (symbolic or concrete) as a term.
func (i *interpreter) termOf(v value) string {
	switch v := v.(type) {
	case *sym:
		return v.term
	case bool:
		if v {
			return "true"
		}
		return "false"
	case string:
		return i.P.strConst(v)
	}
	if t, ok := intTermOf(v); ok {
		return t
	}
	panic(unsupported{fmt.Sprintf("termOf: value of type %T has no term", v)})
}

func typeMask(k types.BasicKind) uint64 {
	bits, signed := kindBits(k)
	if signed || bits == 64 {
		return ^uint64(0)
	}
	return (uint64(1) << bits) - 1
}

func maskOf(v value, k types.BasicKind) (uint64, bool) {
	switch v := v.(type) {
	case *sym:
		_, signed := kindBits(k)
		if v.maskOK {
			if signed {
				return v.mask, true
			}
			return v.mask & typeMask(k), true
		}
		if signed {
			return ^uint64(0), false
		}
		return typeMask(k), true
	}
	b := bigOf(v)
	if b.Sign() < 0 {
		return ^uint64(0), false
	}
	return b.Uint64(), true
}

// ---- string constants (order-preserving integer codes) ----

type strConstTab struct {
	sorted []string // constants met so far on this path, sorted
}

// strConst returns the Int term standing for the concrete string s when it
// meets an atom.  The empty string is 0.  On first use the constant's order
// relative to all constants seen before is added to the path condition.
func (p *pathState) strConst(s string) string {
	if s == "" {
		return "0"
	}
	name := "|s!" + hex.EncodeToString([]byte(s)) + "|"
	idx := sort.SearchStrings(p.strs.sorted, s)
	if idx < len(p.strs.sorted) && p.strs.sorted[idx] == s {
		return name
	}
	p.declare(name, "Int")
	p.strs.sorted = append(p.strs.sorted, "")
	copy(p.strs.sorted[idx+1:], p.strs.sorted[idx:])
	p.strs.sorted[idx] = s
	if idx == 0 {
		p.addPC("(> " + name + " 0)")
	} else {
		prev := "|s!" + hex.EncodeToString([]byte(p.strs.sorted[idx-1])) + "|"
		p.addPC("(> " + name + " " + prev + ")")
	}
	if idx+1 < len(p.strs.sorted) {
		next := "|s!" + hex.EncodeToString([]byte(p.strs.sorted[idx+1])) + "|"
		p.addPC("(< " + name + " " + next + ")")
	}
	return name
}

// ---- equality ----

func (i *interpreter) symEq(x *sym, y value) value {
	switch x.kind {
	case kAtom:
		switch y := y.(type) {
		case symstr:
			panic(unsupported{"comparison of an atom string with a byte string"})
		case opaqueStr:
			panic(unsupported{"comparison of an opaque (formatted) string"})
		case *sym:
			if y.term == x.term {
				return true
			}
		}
	case kBool:
		if yb, ok := y.(bool); ok {
			if yb {
				return x
			}
			return notv(x)
		}
	}
	yt := i.termOf(y)
	if yt == x.term {
		return true
	}
	return &sym{term: "(= " + x.term + " " + yt + ")", kind: kBool}
}

func (i *interpreter) symstrEq(x symstr, y value) value {
	var ys symstr
	switch y := y.(type) {
	case string:
		ys = strToSymstr(y)
	case symstr:
		ys = y
	case *sym:
		panic(unsupported{"comparison of an atom string with a byte string"})
	default:
		panic(unsupported{fmt.Sprintf("symstr == %T", y)})
	}
	if len(x) != len(ys) {
		return false
	}
	var acc value = true
	for k := range x {
		acc = i.andv(acc, i.eqv(types.Typ[types.Uint8], x[k], ys[k]))
		if acc == false {
			return false
		}
	}
	return acc
}

func strToSymstr(s string) symstr {
	r := make(symstr, len(s))
	for k := 0; k < len(s); k++ {
		r[k] = s[k]
	}
	return r
}

// symstrConcrete returns the Go string if all bytes are concrete.
func symstrConcrete(s symstr) (string, bool) {
	b := make([]byte, len(s))
	for k, e := range s {
		c, ok := e.(uint8)
		if !ok {
			return "", false
		}
		b[k] = c
	}
	return string(b), true
}

// normStr turns a fully concrete symstr back into a Go string.
func normStr(s symstr) value {
	if c, ok := symstrConcrete(s); ok {
		return c
	}
	return s
}

// lexicographic comparison of byte strings: returns term for x < y (strict) or x <= y
func (i *interpreter) symstrLess(x, y symstr, orEqual bool) value {
	// build from the end
	var res value
	n := len(x)
	if len(y) < n {
		n = len(y)
	}
	// tail: all first n bytes equal
	if orEqual {
		res = len(x) <= len(y)
	} else {
		res = len(x) < len(y)
	}
	u8 := types.Typ[types.Uint8]
	for k := n - 1; k >= 0; k-- {
		lt := i.binop(token.LSS, u8, x[k], y[k])
		eq := i.eqv(u8, x[k], y[k])
		// lt || (eq && res)
		res = i.orv(lt, i.andv(eq, res))
	}
	return res
}

func (i *interpreter) orv(a, b value) value {
	if ab, ok := a.(bool); ok {
		if ab {
			return true
		}
		return b
	}
	if bb, ok := b.(bool); ok {
		if bb {
			return true
		}
		return a
	}
	return &sym{term: "(or " + a.(*sym).term + " " + b.(*sym).term + ")", kind: kBool}
}

// ---- binary operators on symbolic scalars ----

func cmpOp(op token.Token) string {
	switch op {
	case token.LSS:
		return "<"
	case token.LEQ:
		return "<="
	case token.GTR:
		return ">"
	case token.GEQ:
		return ">="
	}
	return ""
}

// symBinop: at least one of x, y is *sym; t is the static operand type of x.
func (i *interpreter) symBinop(op token.Token, t types.Type, x, y value) value {
	k := basicKindOf(t)
	switch op {
	case token.EQL:
		return i.eqv(t, x, y)
	case token.NEQ:
		return notv(i.eqv(t, x, y))
	}
	if k == types.Bool {
		panic(unsupported{"boolean binop " + op.String()})
	}
	if k == types.String {
		if c := cmpOp(op); c != "" {
			if _, ok := x.(opaqueStr); ok {
				panic(unsupported{"ordering of an opaque string"})
			}
			if _, ok := y.(opaqueStr); ok {
				panic(unsupported{"ordering of an opaque string"})
			}
			ta, tb := i.termOf(x), i.termOf(y)
			if ta == tb {
				return op == token.LEQ || op == token.GEQ
			}
			return &sym{term: "(" + c + " " + ta + " " + tb + ")", kind: kBool}
		}
		if op == token.ADD {
			return i.newOpaque()
		}
		panic(unsupported{"string binop " + op.String() + " on atom"})
	}
	if !isIntKind(k) {
		panic(unsupported{fmt.Sprintf("symbolic binop %s on %s", op, t)})
	}
	if c := cmpOp(op); c != "" {
		ta, tb := i.termOf(x), i.termOf(y)
		if ta == tb {
			return op == token.LEQ || op == token.GEQ
		}
		return &sym{term: "(" + c + " " + ta + " " + tb + ")", kind: kBool}
	}
	a, b := i.termOf(x), i.termOf(y)
	bits, signed := kindBits(k)
	switch op {
	case token.ADD:
		r := &sym{term: wrapNear("(+ "+a+" "+b+")", k), kind: kInt, bk: k}
		return r
	case token.SUB:
		return &sym{term: wrapNear("(- "+a+" "+b+")", k), kind: kInt, bk: k}
	case token.MUL:
		_, xs := x.(*sym)
		_, ys := y.(*sym)
		if xs && ys {
			panic(unsupported{"multiplication of two symbolic values"})
		}
		return &sym{term: wrapAny("(* "+a+" "+b+")", k), kind: kInt, bk: k}
	case token.QUO, token.REM:
		if ys, ok := y.(*sym); ok {
			if i.decide(&sym{term: "(= " + ys.term + " 0)", kind: kBool}) {
				panic(targetPanic{"runtime error: integer divide by zero"})
			}
		} else if bigOf(y).Sign() == 0 {
			panic(targetPanic{"runtime error: integer divide by zero"})
		}
		if !signed {
			if op == token.QUO {
				return &sym{term: "(div " + a + " " + b + ")", kind: kInt, bk: k}
			}
			return &sym{term: "(mod " + a + " " + b + ")", kind: kInt, bk: k}
		}
		if op == token.QUO {
			q := "(let ((q!a " + a + ") (q!b " + b + ")) (let ((q!q (div (abs q!a) (abs q!b)))) (ite (= (>= q!a 0) (>= q!b 0)) q!q (- q!q))))"
			return &sym{term: wrapNear(q, k), kind: kInt, bk: k}
		}
		r := "(let ((r!a " + a + ")) (let ((r!r (mod (abs r!a) (abs " + b + ")))) (ite (>= r!a 0) r!r (- r!r))))"
		return &sym{term: r, kind: kInt, bk: k}
	case token.SHL, token.SHR:
		if _, ok := y.(*sym); ok {
			panic(unsupported{"shift by a symbolic amount"})
		}
		sh := bigOf(y)
		if sh.Sign() < 0 {
			panic(targetPanic{"runtime error: negative shift amount"})
		}
		n := uint(sh.Uint64())
		if op == token.SHL {
			if n >= bits {
				return valueOfKind(k, big.NewInt(0))
			}
			r := &sym{term: wrapAny("(* "+a+" "+pow2(n).String()+")", k), kind: kInt, bk: k}
			if m, ok := maskOf(x, k); ok && !signed {
				r.mask, r.maskOK = (m<<n)&typeMask(k), true
			} else if ok && signed && (m<<n)>>n == m && (m<<n)>>(bits-1) == 0 {
				// non-negative value whose shifted bits stay below the sign bit
				r = &sym{term: "(* " + a + " " + pow2(n).String() + ")", kind: kInt, bk: k, mask: m << n, maskOK: true}
			}
			if sx, ok := x.(*sym); ok && sx.asmSrc != "" && !signed && bits == 64 && n%8 == 0 {
				// all bytes must stay inside the word
				top := 0
				for b := 0; b < 8; b++ {
					if sx.asmHave&(1<<b) != 0 {
						top = b
					}
				}
				if top+sx.asmOff+int(n/8) < 8 {
					r.asmSrc, r.asmHave, r.asmOff = sx.asmSrc, sx.asmHave, sx.asmOff+int(n/8)
				}
			}
			return r
		}
		if n >= bits {
			if !signed {
				return valueOfKind(k, big.NewInt(0))
			}
			return &sym{term: "(ite (< " + a + " 0) (- 1) 0)", kind: kInt, bk: k}
		}
		r := &sym{term: "(div " + a + " " + pow2(n).String() + ")", kind: kInt, bk: k}
		if m, ok := maskOf(x, k); ok && !signed {
			r.mask, r.maskOK = m>>n, true
		}
		if sx, ok := x.(*sym); ok && !signed && bits == 64 && n%8 == 0 {
			if sx.shrSrc != "" {
				r.shrSrc, r.shrN = sx.shrSrc, sx.shrN+n
			} else {
				r.shrSrc, r.shrN = sx.term, n
			}
		}
		return r
	case token.AND, token.OR, token.XOR, token.AND_NOT:
		return i.symBitop(op, k, x, y)
	}
	panic(unsupported{"symbolic binop " + op.String()})
}

// andConst returns the term and mask for (a & c) where c is a concrete
// non-negative bit pattern, using two's-complement low-bit arithmetic.
func andConstTerm(a string, c uint64) string {
	if c == 0 {
		return "0"
	}
	var parts []string
	bit := uint(0)
	for bit < 64 {
		if c&(1<<bit) == 0 {
			bit++
			continue
		}
		lo := bit
		for bit < 64 && c&(1<<bit) != 0 {
			bit++
		}
		hi := bit // run [lo,hi)
		t := a
		if lo > 0 {
			t = "(div " + t + " " + pow2(lo).String() + ")"
		}
		t = "(mod " + t + " " + pow2(hi-lo).String() + ")"
		if lo > 0 {
			t = "(* " + t + " " + pow2(lo).String() + ")"
		}
		parts = append(parts, t)
	}
	if len(parts) == 1 {
		return parts[0]
	}
	return "(+ " + strings.Join(parts, " ") + ")"
}

func (i *interpreter) symBitop(op token.Token, k types.BasicKind, x, y value) value {
	_, xs := x.(*sym)
	_, ys := y.(*sym)
	bits, signed := kindBits(k)
	if xs && ys {
		mx, okx := maskOf(x, k)
		my, oky := maskOf(y, k)
		if okx && oky && mx&my == 0 {
			switch op {
			case token.OR, token.XOR:
				if r := mergeAsm(x.(*sym), y.(*sym), k); r != nil {
					return r
				}
				return &sym{term: "(+ " + i.termOf(x) + " " + i.termOf(y) + ")", kind: kInt, bk: k, mask: mx | my, maskOK: true}
			case token.AND:
				return valueOfKind(k, big.NewInt(0))
			case token.AND_NOT:
				return x
			}
		}
		panic(unsupported{"bitwise " + op.String() + " of two symbolic values with overlapping bits"})
	}
	// exactly one symbolic operand
	var s *sym
	var c value
	symLeft := xs
	if xs {
		s, c = x.(*sym), y
	} else {
		s, c = y.(*sym), x
	}
	cb := bigOf(c)
	// two's complement pattern of c within the width
	var pat uint64
	if cb.Sign() < 0 {
		pat = uint64(cb.Int64())
	} else {
		pat = cb.Uint64()
	}
	if bits < 64 {
		pat &= (uint64(1) << bits) - 1
	}
	a := s.term
	sm, smOK := maskOf(s, k)
	mk := func(term string, mask uint64, maskOK bool) value {
		// term is the unsigned bit pattern value in [0,2^bits); convert to signed if needed
		if signed {
			if maskOK && mask>>(bits-1) == 0 {
				// the bit pattern is non-negative and fits: no wrap needed
				return &sym{term: term, kind: kInt, bk: k, mask: mask, maskOK: true}
			}
			term = wrapAny(term, k)
			return &sym{term: term, kind: kInt, bk: k}
		}
		return &sym{term: term, kind: kInt, bk: k, mask: mask, maskOK: maskOK}
	}
	// unsigned pattern of the symbolic operand
	ua := a
	if signed {
		ua = "(mod " + a + " " + pow2(bits).String() + ")"
	}
	andT := andConstTerm(ua, pat)
	switch op {
	case token.AND:
		return mk(andT, pat&sm, true)
	case token.OR:
		if smOK && sm&pat == 0 {
			return mk("(+ "+ua+" "+fmt.Sprint(pat)+")", sm|pat, true)
		}
		return mk("(- (+ "+ua+" "+fmt.Sprint(pat)+") "+andT+")", sm|pat, smOK)
	case token.XOR:
		return mk("(- (+ "+ua+" "+fmt.Sprint(pat)+") (* 2 "+andT+"))", sm|pat, smOK)
	case token.AND_NOT:
		if symLeft {
			return mk("(- "+ua+" "+andT+")", sm&^pat, smOK)
		}
		// c &^ s = c - (c & s)
		return mk("(- "+fmt.Sprint(pat)+" "+andT+")", pat, true)
	}
	panic("unreachable")
}

// mergeAsm combines two byte assemblies of the same source.
func mergeAsm(a, b *sym, k types.BasicKind) *sym {
	if a.asmSrc == "" || a.asmSrc != b.asmSrc || a.asmOff != b.asmOff || a.asmHave&b.asmHave != 0 {
		return nil
	}
	bits, signed := kindBits(k)
	if signed || bits != 64 {
		return nil
	}
	have := a.asmHave | b.asmHave
	if have == 0xFF && a.asmOff == 0 {
		return &sym{term: a.asmSrc, kind: kInt, bk: k}
	}
	return &sym{term: "(+ " + a.term + " " + b.term + ")", kind: kInt, bk: k, mask: a.mask | b.mask, maskOK: a.maskOK && b.maskOK, asmSrc: a.asmSrc, asmHave: have, asmOff: a.asmOff}
}

// symUnop
func (i *interpreter) symUnop(op token.Token, t types.Type, x *sym) value {
	switch op {
	case token.NOT:
		return notv(x)
	case token.SUB:
		k := basicKindOf(t)
		return &sym{term: wrapNear("(- "+x.term+")", k), kind: kInt, bk: k}
	case token.XOR:
		k := basicKindOf(t)
		_, signed := kindBits(k)
		if signed {
			return &sym{term: "(- (- " + x.term + ") 1)", kind: kInt, bk: k}
		}
		_, hi := kindRange(k)
		return &sym{term: "(- " + hi.String() + " " + x.term + ")", kind: kInt, bk: k}
	}
	panic(unsupported{"symbolic unop " + op.String()})
}

// symConv converts symbolic integer x of kind from to kind to.
func symConvInt(x *sym, to types.BasicKind) value {
	from := x.bk
	if from == to {
		return x
	}
	flo, fhi := kindRange(from)
	tlo, thi := kindRange(to)
	if flo.Cmp(tlo) >= 0 && fhi.Cmp(thi) <= 0 {
		r := &sym{term: x.term, kind: kInt, bk: to}
		if _, fsigned := kindBits(from); !fsigned {
			r.mask, r.maskOK = maskOf(x, from)
		} else if x.maskOK {
			r.mask, r.maskOK = x.mask, true
		}
		if _, tsigned := kindBits(to); !tsigned {
			r.asmSrc, r.asmHave, r.asmOff = x.asmSrc, x.asmHave, x.asmOff
		}
		return r
	}
	r := &sym{term: wrapAny(x.term, to), kind: kInt, bk: to}
	tb, tsigned := kindBits(to)
	if !tsigned && x.maskOK && tb < 64 {
		r.mask, r.maskOK = x.mask&((uint64(1)<<tb)-1), true
	}
	if to == types.Uint8 && (from == types.Uint64 || from == types.Uint || from == types.Uintptr) {
		// byte k of a 64-bit source
		src, n := x.term, uint(0)
		if x.shrSrc != "" {
			src, n = x.shrSrc, x.shrN
		}
		if n%8 == 0 && n < 64 {
			kb := int(n / 8)
			r.asmSrc, r.asmHave, r.asmOff = src, 1<<uint(kb), -kb
		}
	}
	return r
}

func (i *interpreter) newOpaque() value {
	i.P.nopaque++
	return opaqueStr{id: i.P.nopaque}
}
