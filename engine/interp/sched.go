package interp

// Engine-controlled concurrency: interpreted goroutines are host goroutines
// passing a baton (exactly one runs at a time); the scheduler is a decision.
// Channels, select, sync primitives and timers are implemented here.

import (
	"os"
	"fmt"
	"go/token"
	"go/types"
	"sort"
	"sync"

	"golang.org/x/tools/go/ssa"
)

type killSentinel struct{}

type yieldKind int

const (
	yGo yieldKind = iota
	yLock
	yChan
	ySelect
	yAtomic
	yExplicit
	yCond
	yWait
)

type thread struct {
	id      int
	wake    chan bool   // true = run, false = die
	blocked func() bool // nil = runnable; else readiness predicate
	done    bool
	name    string
	quiesceWaiter bool
	where   string // debugging: call stack at the last blocking point (GOSMT_BLOCKED=1)
}

type scheduler struct {
	i           *interpreter
	threads     []*thread
	cur         *thread
	preemptions int
	maxPreempt  int
	now         int64 // virtual ns since the Unix epoch
	timers      []*vtimer
	noYield     int
	switches    int
	abort       any // engine/target panic raised on a non-main thread
	abortSite   string
	wg          sync.WaitGroup
	ended       bool
	lastObj     map[*thread]any
}

type vtimer struct {
	when    int64
	ch      *echan
	fn      value // AfterFunc
	fired   bool
	stopped bool
	period  int64
	seq     int
}

const virtualEpoch = int64(1_700_000_000) * 1_000_000_000

func newScheduler(i *interpreter, maxPreempt int) *scheduler {
	s := &scheduler{i: i, maxPreempt: maxPreempt, now: virtualEpoch}
	t := &thread{id: 0, wake: make(chan bool, 1), name: "main"}
	s.threads = []*thread{t}
	s.cur = t
	return s
}

func (s *scheduler) enabled() []*thread {
	var r []*thread
	for _, t := range s.threads {
		if t.done {
			continue
		}
		if t.blocked == nil || t.blocked() {
			r = append(r, t)
		}
	}
	return r
}

func (s *scheduler) liveOthers(self *thread) int {
	n := 0
	for _, t := range s.threads {
		if !t.done && t != self {
			n++
		}
	}
	return n
}

// idle handles the situation that no thread is enabled: wake a quiescence
// waiter, else advance virtual time to the earliest timer.  Returns false if
// nothing can ever happen again (deadlock).
func (s *scheduler) idle() bool {
	for _, t := range s.threads {
		if !t.done && t.quiesceWaiter {
			t.quiesceWaiter = false
			return true
		}
	}
	return s.fireTimers()
}

// fireTimers advances virtual time to the earliest pending timer and fires it.
func (s *scheduler) fireTimers() bool {
	var pend []*vtimer
	for _, t := range s.timers {
		if !t.fired && !t.stopped {
			pend = append(pend, t)
		}
	}
	if len(pend) == 0 {
		return false
	}
	sort.SliceStable(pend, func(a, b int) bool {
		if pend[a].when != pend[b].when {
			return pend[a].when < pend[b].when
		}
		return pend[a].seq < pend[b].seq
	})
	t := pend[0]
	if t.when > s.now {
		s.now = t.when
	}
	if t.period > 0 {
		t.when += t.period
	} else {
		t.fired = true
	}
	if t.fn != nil {
		s.spawn(s.i, t.fn, nil, token.NoPos)
	} else if t.ch != nil {
		if len(t.ch.buf) < t.ch.cap {
			t.ch.buf = append(t.ch.buf, s.i.timeValue(s.now))
		}
	}
	return true
}

// reschedule is called by the current thread at a yield point (self may be blocked).
func (s *scheduler) reschedule(self *thread, mayPreempt bool) {
	for {
		if s.abort != nil {
			panic(killSentinel{})
		}
		en := s.enabled()
		if len(en) == 0 {
			if s.idle() {
				continue
			}
			panic(pathAbort{"deadlock"})
		}
		// Delay-bounded scheduling: the default scheduler continues the
		// current thread at a yield point and otherwise runs the next enabled
		// thread in round-robin order; picking the k-th alternative instead
		// costs k delays, and at most maxPreempt delays are spent per path.
		order := s.rrOrder(en, self, mayPreempt)
		next := order[0]
		if rem := s.maxPreempt - s.preemptions; rem > 0 && len(order) > 1 {
			n := len(order)
			if n > rem+1 {
				n = rem + 1
			}
			c := s.i.P.choose(dSched, n)
			s.preemptions += c
			next = order[c]
		}
		if next == self {
			self.blocked = nil
			return
		}
		s.switchTo(self, next)
		if self.blocked == nil || self.blocked() {
			self.blocked = nil
			return
		}
	}
}

// rrOrder lists the enabled threads in default-scheduler order: self first
// when it may continue, then by increasing id after self (wrapping around).
func (s *scheduler) rrOrder(en []*thread, self *thread, selfFirst bool) []*thread {
	var order []*thread
	if selfFirst {
		for _, t := range en {
			if t == self {
				order = append(order, t)
			}
		}
	}
	for _, t := range en {
		if t.id > self.id {
			order = append(order, t)
		}
	}
	for _, t := range en {
		if t.id < self.id || (t == self && !selfFirst) {
			order = append(order, t)
		}
	}
	return order
}

func (s *scheduler) switchTo(self, next *thread) {
	s.switches++
	s.cur = next
	next.wake <- true
	if !<-self.wake {
		panic(killSentinel{})
	}
	s.cur = self
}

// yield is a scheduling point at which the current thread could continue.
func (s *scheduler) yield(kind yieldKind, obj any) {
	if s.noYield > 0 || len(s.threads) == 1 {
		return
	}
	if s.liveOthers(s.cur) == 0 {
		return
	}
	s.reschedule(s.cur, true)
}

func (s *scheduler) blockUntil(ready func() bool) {
	self := s.cur
	for !ready() {
		self.blocked = ready
		if blockedOn && s.i.curFr != nil {
			w := ""
			for fr, n := s.i.curFr, 0; fr != nil && n < 8; fr, n = fr.caller, n+1 {
				pos := token.NoPos
				if fr.cur != nil {
					pos = fr.cur.Pos()
				}
				w += "\n\t\t" + fr.fn.String() + loc(fr.fn.Prog.Fset, pos)
			}
			self.where = w
		}
		s.reschedule(self, false)
	}
	self.blocked = nil
}

var blockedOn = os.Getenv("GOSMT_BLOCKED") != ""

func (s *scheduler) spawn(i *interpreter, fn value, args []value, pos token.Pos) {
	t := &thread{id: len(s.threads), wake: make(chan bool, 1)}
	t.name = fmt.Sprintf("g%d", t.id)
	s.threads = append(s.threads, t)
	s.wg.Add(1)
	go func() {
		defer s.wg.Done()
		if !<-t.wake {
			t.done = true
			return
		}
		defer func() {
			r := recover()
			t.done = true
			if _, ok := r.(killSentinel); ok {
				return
			}
			if r != nil {
				if s.abort == nil {
					s.abort = r
				}
				s.wakeMainToDie()
				return
			}
			// thread finished normally: hand the baton over
			func() {
				defer func() {
					if r := recover(); r != nil {
						if _, ok := r.(killSentinel); ok {
							return
						}
						if s.abort == nil {
							s.abort = r
						}
						s.wakeMainToDie()
					}
				}()
				s.handoffFromDead(t)
			}()
		}()
		s.cur = t
		call(i, nil, pos, fn, args)
	}()
}

func (s *scheduler) wakeMainToDie() {
	m := s.threads[0]
	if m.done {
		return
	}
	select {
	case m.wake <- false:
	default:
	}
}

func (s *scheduler) handoffFromDead(self *thread) {
	for {
		if s.abort != nil {
			return
		}
		en := s.enabled()
		if len(en) == 0 {
			if s.idle() {
				continue
			}
			panic(pathAbort{"deadlock"})
		}
		order := s.rrOrder(en, self, false)
		next := order[0]
		if rem := s.maxPreempt - s.preemptions; rem > 0 && len(order) > 1 {
			n := len(order)
			if n > rem+1 {
				n = rem + 1
			}
			c := s.i.P.choose(dSched, n)
			s.preemptions += c
			next = order[c]
		}
		s.switches++
		s.cur = next
		next.wake <- true
		return
	}
}

// killAll terminates every thread other than main and waits for them.
func (s *scheduler) killAll() {
	s.ended = true
	for _, t := range s.threads[1:] {
		if !t.done {
			select {
			case t.wake <- false:
			default:
			}
		}
	}
	s.wg.Wait()
}

// ---- channels ----

type echan struct {
	cap         int
	buf         []value
	closed      bool
	senders     []*pendingSend // rendezvous for unbuffered channels
	recvWaiting int
}

type pendingSend struct {
	v     value
	taken bool
}

func (i *interpreter) chanSend(ch *echan, v value) {
	s := i.S
	if ch == nil {
		s.blockUntil(func() bool { return false })
	}
	s.yield(yChan, ch)
	if ch.closed {
		panic(targetPanic{"send on closed channel"})
	}
	if ch.cap > 0 {
		s.blockUntil(func() bool { return len(ch.buf) < ch.cap || ch.closed })
		if ch.closed {
			panic(targetPanic{"send on closed channel"})
		}
		ch.buf = append(ch.buf, v)
		return
	}
	ps := &pendingSend{v: v}
	ch.senders = append(ch.senders, ps)
	s.blockUntil(func() bool { return ps.taken || ch.closed })
	if !ps.taken {
		panic(targetPanic{"send on closed channel"})
	}
}

func (i *interpreter) chanClose(ch *echan) {
	if ch == nil {
		panic(targetPanic{"close of nil channel"})
	}
	i.S.yield(yChan, ch)
	if ch.closed {
		panic(targetPanic{"close of closed channel"})
	}
	ch.closed = true
}

func chanCanRecv(ch *echan) bool {
	if ch == nil {
		return false
	}
	if len(ch.buf) > 0 || ch.closed {
		return true
	}
	for _, ps := range ch.senders {
		if !ps.taken {
			return true
		}
	}
	return false
}

func chanDoRecv(ch *echan) (value, bool) {
	if len(ch.buf) > 0 {
		v := ch.buf[0]
		ch.buf = ch.buf[1:]
		return v, true
	}
	for k, ps := range ch.senders {
		if !ps.taken {
			ps.taken = true
			ch.senders = append(ch.senders[:k:k], ch.senders[k+1:]...)
			return ps.v, true
		}
	}
	return nil, false // closed
}

func (i *interpreter) chanRecv(ch *echan) (value, bool) {
	s := i.S
	s.yield(yChan, ch)
	ch.recvWaitingInc(1)
	s.blockUntil(func() bool { return chanCanRecv(ch) })
	ch.recvWaitingInc(-1)
	return chanDoRecv(ch)
}

func (ch *echan) recvWaitingInc(d int) {
	if ch != nil {
		ch.recvWaiting += d
	}
}

// a send on an unbuffered channel can complete only if a receiver is waiting
func chanCanSend(ch *echan) bool {
	if ch == nil {
		return false
	}
	if ch.closed {
		return true // will panic
	}
	if ch.cap > 0 {
		return len(ch.buf) < ch.cap
	}
	return ch.recvWaiting > 0
}

func (i *interpreter) doSelect(instr *ssa.Select, fr *frame) value {
	s := i.S
	s.yield(ySelect, nil)
	type st struct {
		ch   *echan
		send bool
		v    value
	}
	var states []st
	for _, sc := range instr.States {
		ch, _ := fr.get(sc.Chan).(*echan)
		x := st{ch: ch, send: sc.Dir == types.SendOnly}
		if x.send {
			x.v = fr.get(sc.Send)
		}
		states = append(states, x)
	}
	ready := func() []int {
		var r []int
		for k, sc := range states {
			if sc.send && chanCanSend(sc.ch) || !sc.send && chanCanRecv(sc.ch) {
				r = append(r, k)
			}
		}
		return r
	}
	chosen := -1
	r := ready()
	if len(r) == 0 && !instr.Blocking {
		chosen = -1
	} else {
		if len(r) == 0 {
			for _, sc := range states {
				if !sc.send {
					sc.ch.recvWaitingInc(1)
				}
			}
			// register pending sends so that receivers can see us
			var pss []*pendingSend
			for _, sc := range states {
				if sc.send && sc.ch != nil && sc.ch.cap == 0 {
					ps := &pendingSend{v: sc.v}
					sc.ch.senders = append(sc.ch.senders, ps)
					pss = append(pss, ps)
				} else {
					pss = append(pss, nil)
				}
			}
			s.blockUntil(func() bool {
				for _, ps := range pss {
					if ps != nil && ps.taken {
						return true
					}
				}
				return len(ready()) > 0
			})
			for _, sc := range states {
				if !sc.send {
					sc.ch.recvWaitingInc(-1)
				}
			}
			// withdraw pending sends; if one was taken, that case is chosen
			for k, sc := range states {
				if sc.send && sc.ch != nil && sc.ch.cap == 0 {
					ps := pss[k]
					if ps.taken {
						chosen = k
					} else {
						for j, q := range sc.ch.senders {
							if q == ps {
								sc.ch.senders = append(sc.ch.senders[:j:j], sc.ch.senders[j+1:]...)
								break
							}
						}
					}
				}
			}
			r = ready()
		}
		if chosen < 0 {
			// a pending send of ours might make a channel look receivable to
			// ourselves: ready() was computed after withdrawing, fine.
			if len(r) == 0 {
				panic(engineBug{"select: woke up with nothing ready"})
			}
			if len(r) == 1 {
				chosen = r[0]
			} else {
				chosen = r[i.P.choose(dSelect, len(r))]
			}
			sc := states[chosen]
			if sc.send {
				if sc.ch.closed {
					panic(targetPanic{"send on closed channel"})
				}
				if sc.ch.cap > 0 {
					sc.ch.buf = append(sc.ch.buf, sc.v)
				} else {
					// a receiver is waiting: offer the value via a pendingSend.  The receiver may be
					// parked in a select of its own and take another case that became ready in the
					// meantime; then the offer is withdrawn and the select starts over (a committed
					// sender would hang where Go's does not).
					ps := &pendingSend{v: sc.v}
					sc.ch.senders = append(sc.ch.senders, ps)
					s.blockUntil(func() bool { return ps.taken || sc.ch.closed || sc.ch.recvWaiting == 0 })
					if !ps.taken {
						for j, q := range sc.ch.senders {
							if q == ps {
								sc.ch.senders = append(sc.ch.senders[:j:j], sc.ch.senders[j+1:]...)
								break
							}
						}
						if sc.ch.closed {
							panic(targetPanic{"send on closed channel"})
						}
						return i.doSelect(instr, fr)
					}
				}
			}
		}
	}
	var recvOk bool
	var recv value
	if chosen >= 0 && !states[chosen].send {
		recv, recvOk = chanDoRecv(states[chosen].ch)
	}
	res := tuple{chosen, recvOk}
	for k, sc := range instr.States {
		if sc.Dir == types.RecvOnly {
			var v value
			if k == chosen && recvOk {
				v = recv
			} else {
				v = zero(sc.Chan.Type().Underlying().(*types.Chan).Elem())
			}
			res = append(res, v)
		}
	}
	return res
}

// ---- time ----

// internal seconds between year 1 and the Unix epoch (time.unixToInternal)
const unixToInternal int64 = (1969*365 + 1969/4 - 1969/100 + 1969/400) * 86400

// timeValue builds a time.Time (wall, ext, loc) without monotonic reading.
func (i *interpreter) timeValue(ns int64) value {
	sec := ns / 1_000_000_000
	nsec := ns % 1_000_000_000
	var nilp *value
	return structure{uint64(nsec), sec + unixToInternal, nilp}
}
