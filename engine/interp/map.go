package interp

// Maps are insertion-ordered association lists.  Keys of one map are pairwise
// distinct under the path condition: an insertion is preceded by a lookup that
// decided (with the solver where keys are symbolic) "not equal" for every
// existing key.

import (
	"go/types"
)

type amap struct {
	keys []value
	vals []value
}

// find returns the index of key k, or -1.  May make decisions.
func (i *interpreter) mapFind(m *amap, kt types.Type, k value) int {
	if m == nil {
		return -1
	}
	for j, kk := range m.keys {
		if i.decide(i.eqv(kt, kk, k)) {
			return j
		}
	}
	return -1
}

func (i *interpreter) mapUpdate(m *amap, kt types.Type, k, v value) {
	if m == nil {
		panic(targetPanic{"assignment to entry in nil map"})
	}
	if j := i.mapFind(m, kt, k); j >= 0 {
		m.vals[j] = v
		return
	}
	m.keys = append(m.keys, k)
	m.vals = append(m.vals, v)
}

func (i *interpreter) mapDelete(m *amap, kt types.Type, k value) {
	if j := i.mapFind(m, kt, k); j >= 0 {
		m.keys = append(m.keys[:j:j], m.keys[j+1:]...)
		m.vals = append(m.vals[:j:j], m.vals[j+1:]...)
	}
}

type amapIter struct {
	i    *interpreter
	m    *amap
	keys []value // snapshot of keys at range start
	vals []value
	kt   types.Type
	pos  int
}

// next follows Go semantics loosely: entries deleted during iteration are
// not produced; entries added during iteration are not produced.
func (it *amapIter) next() tuple {
	for it.pos < len(it.keys) {
		k := it.keys[it.pos]
		it.pos++
		// still present?  (identity of the key value is enough: keys are
		// never rewritten in place)
		for j, kk := range it.m.keys {
			if sameKeyObject(kk, k) {
				return tuple{true, k, it.m.vals[j]}
			}
		}
	}
	return tuple{false, nil, nil}
}

// sameKeyObject is a cheap syntactic identity test used by iteration only.
func sameKeyObject(a, b value) bool {
	switch a := a.(type) {
	case *sym:
		bs, ok := b.(*sym)
		return ok && (a == bs || a.term == bs.term)
	case structure:
		bs, ok := b.(structure)
		if !ok || len(a) != len(bs) {
			return false
		}
		for i := range a {
			if !sameKeyObject(a[i], bs[i]) {
				return false
			}
		}
		return true
	case array:
		bs, ok := b.(array)
		if !ok || len(a) != len(bs) {
			return false
		}
		for i := range a {
			if !sameKeyObject(a[i], bs[i]) {
				return false
			}
		}
		return true
	case iface:
		bs, ok := b.(iface)
		return ok && sameType(a.t, bs.t) && (a.t == nil || sameKeyObject(a.v, bs.v))
	case symstr:
		bs, ok := b.(symstr)
		if !ok || len(a) != len(bs) {
			return false
		}
		for i := range a {
			if !sameKeyObject(a[i], bs[i]) {
				return false
			}
		}
		return true
	case opaqueStr:
		bs, ok := b.(opaqueStr)
		return ok && a.id == bs.id
	}
	switch b.(type) {
	case *sym, structure, array, iface, symstr, opaqueStr:
		return false
	}
	return a == b
}
