package interp

// SMT solver processes (z3-new -in, cvc5 --incremental) spoken to over pipes.

import (
	"bufio"
	"fmt"
	"io"
	"os"
	"os/exec"
	"strings"
	"time"
)

type solverProc struct {
	name     string
	cmd      *exec.Cmd
	in       io.WriteCloser
	out      *bufio.Reader
	declared map[string]struct{}
	stack    []string // asserted path-condition prefix, one push level each
	log      io.Writer
	dead     bool
}

type SolverStats struct {
	Queries  int
	Sat      int
	Unsat    int
	Unknown  int
	Errors   int
	Seconds  float64
	CrossChecked int
	Disagree int
}

func (a *SolverStats) add(b SolverStats) {
	a.Queries += b.Queries
	a.Sat += b.Sat
	a.Unsat += b.Unsat
	a.Unknown += b.Unknown
	a.Errors += b.Errors
	a.Seconds += b.Seconds
	a.CrossChecked += b.CrossChecked
	a.Disagree += b.Disagree
}

func startSolver(kind string, timeoutMs int) (*solverProc, error) {
	var cmd *exec.Cmd
	switch kind {
	case "z3":
		cmd = exec.Command("z3-new", "-in", fmt.Sprintf("-t:%d", timeoutMs))
	case "z3old":
		cmd = exec.Command("/usr/bin/z3", "-in", fmt.Sprintf("-t:%d", timeoutMs))
	case "cvc5":
		cmd = exec.Command("cvc5", "--incremental", "--lang=smt2", fmt.Sprintf("--tlimit-per=%d", timeoutMs), "--produce-models")
	default:
		return nil, fmt.Errorf("unknown solver %q", kind)
	}
	in, err := cmd.StdinPipe()
	if err != nil {
		return nil, err
	}
	outp, err := cmd.StdoutPipe()
	if err != nil {
		return nil, err
	}
	cmd.Stderr = os.Stderr
	if err := cmd.Start(); err != nil {
		return nil, err
	}
	s := &solverProc{name: kind, cmd: cmd, in: in, out: bufio.NewReaderSize(outp, 1<<16), declared: map[string]struct{}{}}
	if kind == "cvc5" {
		io.WriteString(in, "(set-logic ALL)\n")
	}
	if f := os.Getenv("GOSMT_SMTLOG"); f != "" {
		lf, _ := os.OpenFile(fmt.Sprintf("%s.%s.%d", f, kind, cmd.Process.Pid), os.O_CREATE|os.O_WRONLY|os.O_TRUNC, 0o644)
		s.log = lf
	}
	return s, nil
}

func (s *solverProc) send(text string) {
	if s.log != nil {
		io.WriteString(s.log, text)
	}
	if _, err := io.WriteString(s.in, text); err != nil {
		s.dead = true
	}
}

func (s *solverProc) close() {
	if s == nil {
		return
	}
	s.in.Close()
	done := make(chan struct{})
	go func() { s.cmd.Wait(); close(done) }()
	select {
	case <-done:
	case <-time.After(2 * time.Second):
		s.cmd.Process.Kill()
	}
}

// readLine reads one response line, skipping empty lines.
func (s *solverProc) readLine() string {
	for {
		line, err := s.out.ReadString('\n')
		if err != nil {
			s.dead = true
			return "(error \"solver died\")"
		}
		line = strings.TrimSpace(line)
		if line != "" {
			return line
		}
	}
}

// readSexp reads one balanced s-expression.
func (s *solverProc) readSexp() string {
	var b strings.Builder
	depth := 0
	started := false
	inQuote := false
	inBar := false
	for {
		r, _, err := s.out.ReadRune()
		if err != nil {
			s.dead = true
			return b.String()
		}
		if !started && (r == ' ' || r == '\n' || r == '\t' || r == '\r') {
			continue
		}
		b.WriteRune(r)
		switch {
		case inQuote:
			if r == '"' {
				inQuote = false
			}
		case inBar:
			if r == '|' {
				inBar = false
			}
		case r == '"':
			inQuote = true
		case r == '|':
			inBar = true
		case r == '(':
			depth++
			started = true
		case r == ')':
			depth--
		}
		if started && depth == 0 && !inQuote && !inBar {
			return b.String()
		}
	}
}

// sync brings the solver's assertion stack to exactly pc, declaring what is needed.
func (s *solverProc) sync(decls []string, pc []string) {
	var b strings.Builder
	// common prefix
	n := 0
	for n < len(s.stack) && n < len(pc) && s.stack[n] == pc[n] {
		n++
	}
	if k := len(s.stack) - n; k > 0 {
		fmt.Fprintf(&b, "(pop %d)\n", k)
		s.stack = s.stack[:n]
	}
	// declarations are global: only legal at level 0 for persistence in some
	// solvers, so they are emitted before pushing; to keep them alive we pop
	// to level 0 if new declarations are needed.
	var newDecls []string
	for _, d := range decls {
		if _, ok := s.declared[d]; !ok {
			newDecls = append(newDecls, d)
		}
	}
	if len(newDecls) > 0 {
		if len(s.stack) > 0 {
			fmt.Fprintf(&b, "(pop %d)\n", len(s.stack))
			s.stack = s.stack[:0]
		}
		for _, d := range newDecls {
			s.declared[d] = struct{}{}
			b.WriteString(d)
			b.WriteByte('\n')
		}
	}
	for j := len(s.stack); j < len(pc); j++ {
		b.WriteString("(push 1)\n(assert ")
		b.WriteString(pc[j])
		b.WriteString(")\n")
		s.stack = append(s.stack, pc[j])
	}
	s.send(b.String())
}

// check asks sat(pc ∧ extra).  If wantValues is non-empty and the answer is
// sat, the values of those terms are returned.
func (s *solverProc) check(decls, pc []string, extra string, wantValues []string) (res string, values map[string]string) {
	if s.dead {
		return "unknown", nil
	}
	s.sync(decls, pc)
	var b strings.Builder
	b.WriteString("(push 1)\n")
	if extra != "" && extra != "true" {
		b.WriteString("(assert " + extra + ")\n")
	}
	b.WriteString("(check-sat)\n")
	s.send(b.String())
	res = s.readLine()
	for strings.HasPrefix(res, "(error") {
		fmt.Fprintf(os.Stderr, "gosmt: solver %s: %s\n  on: %s\n", s.name, res, extra)
		res = "error"
		break
	}
	if res == "sat" && len(wantValues) > 0 {
		s.send("(get-value (" + strings.Join(wantValues, " ") + "))\n")
		sx := s.readSexp()
		values = parseValues(sx, wantValues)
	}
	s.send("(pop 1)\n")
	switch res {
	case "sat", "unsat":
	case "error":
		// the solver state may be inconsistent after an error: restart lazily
		res = "unknown"
	default:
		res = "unknown"
	}
	return res, values
}

// ---- tiny s-expression reader for get-value output ----

type sexp struct {
	atom string
	list []*sexp
}

func parseSexp(s string, pos *int) *sexp {
	for *pos < len(s) && (s[*pos] == ' ' || s[*pos] == '\n' || s[*pos] == '\t' || s[*pos] == '\r') {
		*pos++
	}
	if *pos >= len(s) {
		return nil
	}
	if s[*pos] == '(' {
		*pos++
		e := &sexp{}
		for {
			for *pos < len(s) && (s[*pos] == ' ' || s[*pos] == '\n' || s[*pos] == '\t' || s[*pos] == '\r') {
				*pos++
			}
			if *pos >= len(s) {
				return e
			}
			if s[*pos] == ')' {
				*pos++
				return e
			}
			e.list = append(e.list, parseSexp(s, pos))
		}
	}
	start := *pos
	if s[*pos] == '|' {
		*pos++
		for *pos < len(s) && s[*pos] != '|' {
			*pos++
		}
		*pos++
		return &sexp{atom: s[start:*pos]}
	}
	if s[*pos] == '"' {
		*pos++
		for *pos < len(s) && s[*pos] != '"' {
			*pos++
		}
		*pos++
		return &sexp{atom: s[start:*pos]}
	}
	for *pos < len(s) && !strings.ContainsRune(" \n\t\r()", rune(s[*pos])) {
		*pos++
	}
	return &sexp{atom: s[start:*pos]}
}

func (e *sexp) String() string {
	if e == nil {
		return ""
	}
	if e.list == nil && e.atom != "" {
		return e.atom
	}
	parts := make([]string, len(e.list))
	for i, x := range e.list {
		parts[i] = x.String()
	}
	return "(" + strings.Join(parts, " ") + ")"
}

// parseValues maps each wanted term (by position) to its value rendered as
// "true"/"false"/decimal (with leading '-' for negatives).
func parseValues(sx string, want []string) map[string]string {
	pos := 0
	e := parseSexp(sx, &pos)
	res := map[string]string{}
	if e == nil {
		return res
	}
	for k, pair := range e.list {
		if k >= len(want) || len(pair.list) != 2 {
			continue
		}
		res[want[k]] = valString(pair.list[1])
	}
	return res
}

func valString(v *sexp) string {
	if v.list == nil {
		return v.atom
	}
	if len(v.list) == 2 && v.list[0].atom == "-" {
		return "-" + valString(v.list[1])
	}
	return v.String()
}
