package interp

// One symbolic path: decision vector, path condition, inputs.

import (
	"fmt"
	"go/token"
	"math/rand"
	"os"
	"strings"
)

// decision kinds
const (
	dBranch = 'b' // branch on a symbolic condition (data)
	dChoose = 'c' // verif.Choose
	dSched  = 's' // scheduler
	dSelect = 'l' // select with several ready cases
	dIndex  = 'i' // concretisation of an index / length
)

type inputRec struct {
	Name string // harness-given name
	Kind string // "bool","int","uint","atom","byte","choose"
	Term string // "" when the value is concrete (Choose outcome)
	Conc string
}

type obsRec struct {
	Label string
	Kind  string
	Term  string // term, or "" if concrete
	Conc  string // concrete rendering
}

type pathAbort struct {
	reason string
}

type pathState struct {
	ex     *Explorer
	w      *Worker
	prefix []int32
	taken  []int32
	kinds  []byte
	pc     []string
	pcSet  map[string]struct{}
	decls  []string // "(declare-const n S)" in order
	declSet map[string]struct{}
	inputs []inputRec
	obs    []obsRec
	strs   strConstTab
	nfresh int
	nopaque int
	caseLabel string
	covers []string
	// concrete replay (SSA-level confirmation): values for inputs in order
	concrete   []InputValue
	concIdx    int
	concNondet []int32
	concNI     int
	nondet     []int32 // non-data decisions in order (recorded)
	interp   *interpreter
	trail    []string
	lenCache map[string]*sym
	lenAtoms [][2]string
	panicSite string
	unwind   int
	mustTerminate bool
	quiescenceFns []value
	assertsSeen int
	weight   float64 // estimate mode: product of the numbers of feasible outcomes taken at random
	// result
	status  string // "", "violation", "inconclusive"
	verdict *Finding
}

func newPathState(ex *Explorer, w *Worker, prefix []int32) *pathState {
	return &pathState{weight: 1, ex: ex, w: w, prefix: prefix, pcSet: map[string]struct{}{}, declSet: map[string]struct{}{}, lenCache: map[string]*sym{}, unwind: ex.Cfg.Unwind}
}

func (p *pathState) declare(name, sort string) {
	if _, ok := p.declSet[name]; ok {
		return
	}
	p.declSet[name] = struct{}{}
	p.decls = append(p.decls, "(declare-const "+name+" "+sort+")")
}

func (p *pathState) addPC(c string) {
	if c == "true" {
		return
	}
	if _, ok := p.pcSet[c]; ok {
		return
	}
	p.pcSet[c] = struct{}{}
	p.pc = append(p.pc, c)
}

func (p *pathState) fresh(name, sort string) string {
	p.nfresh++
	n := fmt.Sprintf("|%s!%d|", sanitize(name), p.nfresh)
	p.declare(n, sort)
	return n
}

func sanitize(s string) string {
	return strings.Map(func(r rune) rune {
		if r == '|' || r == '\\' || r < 32 || r > 126 {
			return '_'
		}
		return r
	}, s)
}

// decideK makes a k-ary decision; outcome j has constraint conds[j] ("true" for
// pure nondeterminism).  Returns the chosen outcome.
func (p *pathState) decideK(kind byte, conds []string) int {
	idx := len(p.taken)
	p.ex.addDecision()
	if idx >= p.ex.Cfg.MaxDepth {
		panic(inconclusive{"decision depth bound exceeded"})
	}
	if p.concrete != nil {
		if kind == dBranch || kind == dIndex {
			panic(inconclusive{"concrete replay reached a symbolic data decision"})
		}
		if p.concNI >= len(p.concNondet) {
			panic(inconclusive{"concrete replay ran out of recorded choices"})
		}
		c := int(p.concNondet[p.concNI])
		p.concNI++
		if c >= len(conds) {
			panic(inconclusive{"concrete replay: recorded choice out of range"})
		}
		p.take(kind, c, "true")
		return c
	}
	if idx < len(p.prefix) {
		c := int(p.prefix[idx])
		if c >= len(conds) {
			panic(inconclusive{fmt.Sprintf("non-deterministic re-execution: decision %d has %d outcomes, prefix says %d", idx, len(conds), c)})
		}
		p.take(kind, c, conds[c])
		return c
	}
	first := -1
	allTrue := true
	for _, c := range conds {
		if c != "true" {
			allTrue = false
		}
	}
	var feas []int
	if allTrue {
		for j := range conds {
			feas = append(feas, j)
		}
	} else {
		for j, c := range conds {
			// last one: if nothing else was feasible it must be (pc is sat and the
			// outcomes are exhaustive) -- but outcomes are not always exhaustive
			// (Assume-style pruning), so ask.
			if _, known := p.pcSet[c]; known {
				feas = append(feas, j)
				continue
			}
			r := p.w.check(p, c)
			if r == "unsat" {
				continue
			}
			feas = append(feas, j)
		}
	}
	if len(feas) == 0 {
		panic(pathAbort{"infeasible"})
	}
	if p.ex.Cfg.Estimate > 0 {
		c := feas[rand.Intn(len(feas))]
		p.weight *= float64(len(feas))
		p.take(kind, c, conds[c])
		return c
	}
	first = feas[0]
	// push alternatives (in reverse so that lower outcomes are explored first by the LIFO frontier)
	for j := len(feas) - 1; j >= 1; j-- {
		alt := make([]int32, len(p.taken)+1)
		copy(alt, p.taken)
		alt[len(p.taken)] = int32(feas[j])
		p.ex.push(alt)
	}
	p.take(kind, first, conds[first])
	return first
}

var trailOn = os.Getenv("GOSMT_TRAIL") != ""

func (p *pathState) take(kind byte, c int, cond string) {
	if trailOn && p.interp != nil && p.interp.curFr != nil {
		fr := p.interp.curFr
		pos := token.NoPos
		if fr.cur != nil {
			pos = fr.cur.Pos()
		}
		w := fr.fn.String() + loc(fr.fn.Prog.Fset, pos)
		if fr.caller != nil && pos == token.NoPos {
			w += " <- " + fr.caller.fn.String()
		}
		short := cond
		if len(short) > 80 {
			short = short[:80]
		}
		p.trail = append(p.trail, fmt.Sprintf("%c%d %s  [%s]", kind, c, w, short))
	}
	p.taken = append(p.taken, int32(c))
	p.kinds = append(p.kinds, kind)
	if kind != dBranch && kind != dIndex {
		p.nondet = append(p.nondet, int32(c))
	}
	p.addPC(cond)
}

// decide branches on a boolean value.
func (i *interpreter) decide(c value) bool {
	switch c := c.(type) {
	case bool:
		return c
	case *sym:
		p := i.P
		if _, ok := p.pcSet[c.term]; ok {
			return true
		}
		neg := "(not " + c.term + ")"
		if _, ok := p.pcSet[neg]; ok {
			return false
		}
		if strings.HasPrefix(c.term, "(not ") {
			inner := c.term[5 : len(c.term)-1]
			if _, ok := p.pcSet[inner]; ok {
				return false
			}
		}
		return p.decideBranch(c.term, neg)
	}
	panic(fmt.Sprintf("decide: unexpected %T", c))
}

// decideBranch is a 2-ary decision with the "other side must be feasible" shortcut.
func (p *pathState) decideBranch(pos, neg string) bool {
	idx := len(p.taken)
	p.ex.addDecision()
	if idx >= p.ex.Cfg.MaxDepth {
		panic(inconclusive{"decision depth bound exceeded"})
	}
	if p.concrete != nil {
		panic(inconclusive{"concrete replay reached a symbolic branch"})
	}
	if idx < len(p.prefix) {
		c := int(p.prefix[idx])
		if c == 0 {
			p.take(dBranch, 0, pos)
		} else {
			p.take(dBranch, 1, neg)
		}
		return c == 0
	}
	r := p.w.check(p, pos)
	if r == "unsat" {
		p.take(dBranch, 1, neg)
		return false
	}
	r2 := p.w.check(p, neg)
	if p.ex.Cfg.Estimate > 0 {
		if r2 != "unsat" {
			p.weight *= 2
			if rand.Intn(2) == 1 {
				p.take(dBranch, 1, neg)
				return false
			}
		}
		p.take(dBranch, 0, pos)
		return true
	}
	if r2 != "unsat" {
		alt := make([]int32, len(p.taken)+1)
		copy(alt, p.taken)
		alt[len(p.taken)] = 1
		p.ex.push(alt)
	}
	p.take(dBranch, 0, pos)
	return true
}

// choose is a k-ary pure nondeterministic decision.
func (p *pathState) choose(kind byte, n int) int {
	if n <= 0 {
		panic(pathAbort{"choose from empty set"})
	}
	if n == 1 {
		return 0
	}
	conds := make([]string, n)
	for j := range conds {
		conds[j] = "true"
	}
	return p.decideK(kind, conds)
}

type inconclusive struct{ reason string }
