// Copyright 2013 The Go Authors. All rights reserved.
// Use of this source code is governed by a BSD-style
// license that can be found in the LICENSE file (LICENSE.xtools).
//
// Derived from golang.org/x/tools/go/ssa/interp (v0.50.0); modified for
// symbolic execution (gosmt).

package interp

// Values
//
// All interpreter values are "boxed" in the empty interface, value.
// The range of possible dynamic types within value are:
//
// - bool
// - numbers (all built-in int/float/complex types are distinguished)
// - string
// - *sym    --- a symbolic scalar (bool, integer of a known basic kind, or atom string)
// - symstr  --- a string/byte sequence of concrete length with (possibly) symbolic bytes
// - opaqueStr --- a string whose content is not modelled (formatted messages)
// - *amap   --- maps (insertion ordered association list)
// - *echan  --- channels (engine implemented)
// - []value --- slices
// - iface --- interfaces.
// - structure --- structs.  Fields are ordered and accessed by numeric indices.
// - array --- arrays.
// - *value --- pointers.  Careful: *value is a distinct type from *array etc.
// - *ssa.Function \
//   *ssa.Builtin   } --- functions.  A nil 'func' is always of type *ssa.Function.
//   *closure      /
// - tuple --- as returned by Return, Next, "value,ok" modes, etc.
// - iter --- iterators from 'range' over map or string.
// - bad --- a poison pill for locals that have gone out of scope.
// - **deferred -- the address of a frame's defer stack for a Defer._Stack.

import (
	"bytes"
	"fmt"
	"go/types"
	"io"
	"strings"

	"golang.org/x/tools/go/ssa"
)

type value any

type tuple []value

type array []value

type iface struct {
	t types.Type // never an "untyped" type
	v value
}

type structure []value

// For map, array, *array, slice, string or channel.
type iter interface {
	// next returns a Tuple (key, value, ok).
	next() tuple
}

type closure struct {
	Fn  *ssa.Function
	Env []value
}

type bad struct{}

// opaqueStr is a string whose text is not modelled (fmt output etc.).
// Any attempt to inspect it aborts the run as unsupported.
type opaqueStr struct{ id int }

// decStr is the decimal text of a symbolic integer (strconv.Format* result).
type decStr struct{ n *sym }

// nil-tolerant variant of types.Identical.
func sameType(x, y types.Type) bool {
	if x == nil {
		return y == nil
	}
	return y != nil && types.Identical(x, y)
}

// eqv returns the Go equality of x and y of static type t, as a concrete
// bool or a symbolic boolean (*sym).
func (i *interpreter) eqv(t types.Type, x, y value) value {
	switch x := x.(type) {
	case *sym:
		return i.symEq(x, y)
	case symstr:
		return i.symstrEq(x, y)
	case opaqueStr:
		if y, ok := y.(opaqueStr); ok && y.id == x.id {
			return true
		}
		panic(unsupported{"comparison of an opaque (formatted) string"})
	case decStr:
		return i.decStrEq(x, y)
	}
	switch y := y.(type) {
	case decStr:
		return i.decStrEq(y, x)
	case *sym:
		return i.symEq(y, x)
	case symstr:
		return i.symstrEq(y, x)
	case opaqueStr:
		panic(unsupported{"comparison of an opaque (formatted) string"})
	}
	switch x := x.(type) {
	case bool:
		return x == y.(bool)
	case int:
		return x == y.(int)
	case int8:
		return x == y.(int8)
	case int16:
		return x == y.(int16)
	case int32:
		return x == y.(int32)
	case int64:
		return x == y.(int64)
	case uint:
		return x == y.(uint)
	case uint8:
		return x == y.(uint8)
	case uint16:
		return x == y.(uint16)
	case uint32:
		return x == y.(uint32)
	case uint64:
		return x == y.(uint64)
	case uintptr:
		return x == y.(uintptr)
	case float32:
		return x == y.(float32)
	case float64:
		return x == y.(float64)
	case complex64:
		return x == y.(complex64)
	case complex128:
		return x == y.(complex128)
	case string:
		return x == y.(string)
	case *value:
		return x == y.(*value)
	case *echan:
		return x == y.(*echan)
	case structure:
		ys := y.(structure)
		tStruct := t.Underlying().(*types.Struct)
		var acc value = true
		for k, n := 0, tStruct.NumFields(); k < n; k++ {
			if f := tStruct.Field(k); f.Name() != "_" {
				acc = i.andv(acc, i.eqv(f.Type(), x[k], ys[k]))
				if acc == false {
					return false
				}
			}
		}
		return acc
	case array:
		ya := y.(array)
		tElt := t.Underlying().(*types.Array).Elem()
		var acc value = true
		for k := range x {
			acc = i.andv(acc, i.eqv(tElt, x[k], ya[k]))
			if acc == false {
				return false
			}
		}
		return acc
	case iface:
		yi := y.(iface)
		if !sameType(x.t, yi.t) {
			return false
		}
		if x.t == nil {
			return true
		}
		return i.eqv(x.t, x.v, yi.v)
	}

	// Since map, func and slice don't support comparison, this
	// case is only reachable if one of x or y is literally nil
	// (handled in eqnil) or via interface{} values.
	panic(targetPanic{fmt.Sprintf("runtime error: comparing uncomparable type %s", t)})
}

// andv is boolean conjunction over concrete/symbolic booleans.
func (i *interpreter) andv(a, b value) value {
	if ab, ok := a.(bool); ok {
		if !ab {
			return false
		}
		return b
	}
	if bb, ok := b.(bool); ok {
		if !bb {
			return false
		}
		return a
	}
	return &sym{term: "(and " + a.(*sym).term + " " + b.(*sym).term + ")", kind: kBool}
}

func notv(a value) value {
	if ab, ok := a.(bool); ok {
		return !ab
	}
	return &sym{term: "(not " + a.(*sym).term + ")", kind: kBool}
}

// reflect.Value struct values don't have a fixed shape ... (upstream note)

// load returns the value of type T in *addr.
func load(T types.Type, addr *value) value {
	switch T := T.Underlying().(type) {
	case *types.Struct:
		v := (*addr).(structure)
		a := make(structure, len(v))
		for i := range a {
			a[i] = load(T.Field(i).Type(), &v[i])
		}
		return a
	case *types.Array:
		v := (*addr).(array)
		a := make(array, len(v))
		for i := range a {
			a[i] = load(T.Elem(), &v[i])
		}
		return a
	default:
		return *addr
	}
}

// store stores value v of type T into *addr.
func store(T types.Type, addr *value, v value) {
	switch T := T.Underlying().(type) {
	case *types.Struct:
		lhs := (*addr).(structure)
		rhs := v.(structure)
		for i := range lhs {
			store(T.Field(i).Type(), &lhs[i], rhs[i])
		}
	case *types.Array:
		lhs := (*addr).(array)
		rhs := v.(array)
		for i := range lhs {
			store(T.Elem(), &lhs[i], rhs[i])
		}
	default:
		*addr = v
	}
}

// Prints in the style of built-in println.
func writeValue(buf *bytes.Buffer, v value) {
	switch v := v.(type) {
	case nil, bool, int, int8, int16, int32, int64, uint, uint8, uint16, uint32, uint64, uintptr, float32, float64, complex64, complex128, string:
		fmt.Fprintf(buf, "%v", v)

	case *sym:
		fmt.Fprintf(buf, "<sym %s>", v.term)

	case symstr:
		buf.WriteString("<symstr")
		for _, b := range v {
			buf.WriteString(" ")
			writeValue(buf, b)
		}
		buf.WriteString(">")

	case opaqueStr:
		fmt.Fprintf(buf, "<opaque#%d>", v.id)

	case *amap:
		buf.WriteString("map[")
		if v != nil {
			for k := range v.keys {
				if k > 0 {
					buf.WriteString(" ")
				}
				writeValue(buf, v.keys[k])
				buf.WriteString(":")
				writeValue(buf, v.vals[k])
			}
		}
		buf.WriteString("]")

	case *echan:
		fmt.Fprintf(buf, "%p", v) // (an address)

	case *value:
		if v == nil {
			buf.WriteString("<nil>")
		} else {
			fmt.Fprintf(buf, "%p", v)
		}

	case iface:
		fmt.Fprintf(buf, "(%s, ", v.t)
		writeValue(buf, v.v)
		buf.WriteString(")")

	case structure:
		buf.WriteString("{")
		for i, e := range v {
			if i > 0 {
				buf.WriteString(" ")
			}
			writeValue(buf, e)
		}
		buf.WriteString("}")

	case array:
		buf.WriteString("[")
		for i, e := range v {
			if i > 0 {
				buf.WriteString(" ")
			}
			writeValue(buf, e)
		}
		buf.WriteString("]")

	case []value:
		buf.WriteString("[")
		for i, e := range v {
			if i > 0 {
				buf.WriteString(" ")
			}
			writeValue(buf, e)
		}
		buf.WriteString("]")

	case *ssa.Function, *ssa.Builtin, *closure:
		fmt.Fprintf(buf, "%p", v) // (an address)

	case tuple:
		buf.WriteString("(")
		for i, e := range v {
			if i > 0 {
				buf.WriteString(", ")
			}
			writeValue(buf, e)
		}
		buf.WriteString(")")

	default:
		fmt.Fprintf(buf, "<%T>", v)
	}
}

// Implements printing of Go values in the style of built-in println.
func toString(v value) string {
	var b bytes.Buffer
	writeValue(&b, v)
	return b.String()
}

// ------------------------------------------------------------------------
// Iterators

type stringIter struct {
	*strings.Reader
	i int
}

func (it *stringIter) next() tuple {
	okv := make(tuple, 3)
	ch, n, err := it.ReadRune()
	ok := err != io.EOF
	okv[0] = ok
	if ok {
		okv[1] = it.i
		okv[2] = ch
	}
	it.i += n
	return okv
}
