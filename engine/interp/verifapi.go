package interp

// The harness-facing API (package zzverif/verif), intercepted by the engine.

import (
	"fmt"
	"go/token"
	"go/types"
	"runtime"
	"strconv"
)

const VerifPkg = "github.com/cosi-project/runtime/zzverif/verif"

func (p *pathState) nextConcrete(name, kind string) (string, bool) {
	if p.concrete == nil {
		return "", false
	}
	if p.concIdx >= len(p.concrete) {
		panic(inconclusive{"concrete replay ran out of input values at " + name})
	}
	v := p.concrete[p.concIdx]
	p.concIdx++
	if v.Name != name || v.Kind != kind {
		panic(inconclusive{fmt.Sprintf("concrete replay mismatch: want %s/%s got %s/%s", name, kind, v.Name, v.Kind)})
	}
	return v.Value, true
}

func (i *interpreter) freshInt(name string, k types.BasicKind) value {
	p := i.P
	kind := "int"
	if _, signed := kindBits(k); !signed {
		kind = "uint"
	}
	kind += fmt.Sprint(func() uint { b, _ := kindBits(k); return b }())
	if c, ok := p.nextConcrete(name, kind); ok {
		if kind[0] == 'u' {
			u, _ := strconv.ParseUint(c, 10, 64)
			return valueOfKind(k, bigOf(u))
		}
		n, _ := strconv.ParseInt(c, 10, 64)
		return valueOfKind(k, bigOf(n))
	}
	t := p.fresh(name, "Int")
	p.addPC(rangeConstraint(t, k))
	p.inputs = append(p.inputs, inputRec{Name: name, Kind: kind, Term: t})
	return &sym{term: t, kind: kInt, bk: k}
}

func init() {
	vp := VerifPkg + "."
	ints := map[string]types.BasicKind{"Int": types.Int, "Int64": types.Int64, "Int32": types.Int32, "Uint64": types.Uint64, "Uint32": types.Uint32, "Uint8": types.Uint8, "Byte": types.Uint8, "Int8": types.Int8, "Uint16": types.Uint16, "Int16": types.Int16}
	for name, k := range ints {
		k := k
		externals[vp+name] = func(fr *frame, args []value) value {
			return fr.i.freshInt(args[0].(string), k)
		}
	}
	externals[vp+"Bool"] = func(fr *frame, args []value) value {
		p := fr.i.P
		name := args[0].(string)
		if c, ok := p.nextConcrete(name, "bool"); ok {
			return c == "true"
		}
		t := p.fresh(name, "Bool")
		p.inputs = append(p.inputs, inputRec{Name: name, Kind: "bool", Term: t})
		return &sym{term: t, kind: kBool}
	}
	externals[vp+"Atom"] = func(fr *frame, args []value) value {
		p := fr.i.P
		name := args[0].(string)
		if c, ok := p.nextConcrete(name, "atom"); ok {
			return c
		}
		t := p.fresh(name, "Int")
		p.addPC("(>= " + t + " 0)")
		p.inputs = append(p.inputs, inputRec{Name: name, Kind: "atom", Term: t})
		return &sym{term: t, kind: kAtom}
	}
	externals[vp+"Choose"] = func(fr *frame, args []value) value {
		p := fr.i.P
		name := args[0].(string)
		n := args[1].(int)
		if _, ok := p.nextConcrete(name, "choose"); ok {
			return p.choose(dChoose, n)
		}
		c := p.choose(dChoose, n)
		p.inputs = append(p.inputs, inputRec{Name: name, Kind: "choose", Conc: strconv.Itoa(c)})
		return c
	}
	bytesOf := func(fr *frame, name string, n int) []value {
		res := make([]value, n)
		for k := 0; k < n; k++ {
			res[k] = fr.i.freshInt(fmt.Sprintf("%s[%d]", name, k), types.Uint8)
		}
		return res
	}
	externals[vp+"Bytes"] = func(fr *frame, args []value) value {
		return bytesOf(fr, args[0].(string), args[1].(int))
	}
	externals[vp+"String"] = func(fr *frame, args []value) value {
		return normStr(symstr(bytesOf(fr, args[0].(string), args[1].(int))))
	}
	externals[vp+"Assume"] = func(fr *frame, args []value) value {
		p := fr.i.P
		switch c := args[0].(type) {
		case bool:
			if !c {
				panic(pathAbort{"assume"})
			}
		case *sym:
			if _, ok := p.pcSet[c.term]; ok {
				return nil
			}
			r := p.w.check(p, c.term)
			if r == "unsat" {
				panic(pathAbort{"assume"})
			}
			p.addPC(c.term)
		}
		return nil
	}
	externals[vp+"Assert"] = func(fr *frame, args []value) value {
		fr.i.assert(args[0], args[1].(string))
		return nil
	}
	externals[vp+"Fail"] = func(fr *frame, args []value) value {
		fr.i.assert(false, args[0].(string))
		return nil
	}
	externals[vp+"Cover"] = func(fr *frame, args []value) value {
		p := fr.i.P
		l := args[0].(string)
		for _, c := range p.covers {
			if c == l {
				return nil
			}
		}
		p.covers = append(p.covers, l)
		return nil
	}
	externals[vp+"Case"] = func(fr *frame, args []value) value {
		fr.i.P.caseLabel = args[0].(string)
		return nil
	}
	externals[vp+"Observe"] = func(fr *frame, args []value) value {
		p := fr.i.P
		label := args[0].(string)
		v := args[1].(iface)
		o := obsRec{Label: label}
		switch x := v.v.(type) {
		case *sym:
			o.Term = x.term
			switch x.kind {
			case kBool:
				o.Kind = "bool"
			case kAtom:
				o.Kind = "atom"
			default:
				o.Kind = "int"
			}
		case bool:
			o.Kind, o.Conc = "bool", strconv.FormatBool(x)
		case string:
			o.Kind, o.Conc = "atom", x
		case nil:
			o.Kind, o.Conc = "nil", ""
		default:
			if t, ok := intTermOf(x); ok {
				_ = t
				o.Kind, o.Conc = "int", bigOf(x).String()
			} else {
				o.Kind, o.Conc = "other", "?"
			}
		}
		p.obs = append(p.obs, o)
		return nil
	}
	externals[vp+"Yield"] = func(fr *frame, args []value) value {
		fr.i.S.yield(yExplicit, nil)
		return nil
	}
	externals[vp+"Quiesce"] = func(fr *frame, args []value) value {
		s := fr.i.S
		self := s.cur
		if s.liveOthers(self) == 0 && !s.pendingTimers() {
			return nil
		}
		self.quiesceWaiter = true
		s.blockUntil(func() bool { return !self.quiesceWaiter })
		return nil
	}
	externals[vp+"Atomic"] = func(fr *frame, args []value) value {
		s := fr.i.S
		s.noYield++
		defer func() { s.noYield-- }()
		call(fr.i, fr, token.NoPos, args[0], nil)
		return nil
	}
	externals[vp+"SetUnwind"] = func(fr *frame, args []value) value {
		fr.i.P.unwind = args[0].(int)
		return nil
	}
	externals[vp+"SetPreemptions"] = func(fr *frame, args []value) value {
		fr.i.S.maxPreempt = args[0].(int)
		return nil
	}
	externals[vp+"Or"] = func(fr *frame, args []value) value {
		var acc value = false
		for _, a := range args[0].([]value) {
			acc = fr.i.orv(acc, a)
		}
		return acc
	}
	externals[vp+"And"] = func(fr *frame, args []value) value {
		var acc value = true
		for _, a := range args[0].([]value) {
			acc = fr.i.andv(acc, a)
		}
		return acc
	}
	externals[vp+"Not"] = func(fr *frame, args []value) value { return notv(args[0]) }
	externals[vp+"Implies"] = func(fr *frame, args []value) value { return fr.i.orv(notv(args[0]), args[1]) }
	externals[vp+"Iff"] = func(fr *frame, args []value) value {
		return fr.i.eqv(types.Typ[types.Bool], args[0], args[1])
	}
	externals[vp+"Symbolic"] = func(fr *frame, args []value) value { return true }
	externals[vp+"Tier"] = func(fr *frame, args []value) value { return fr.i.P.ex.Tier }
	externals[vp+"ExpectPanic"] = func(fr *frame, args []value) (res value) {
		i := fr.i
		defer func() {
			r := recover()
			if r == nil {
				return
			}
			switch r.(type) {
			case targetPanic, runtime.Error:
				if _, isTA := r.(*runtime.TypeAssertionError); isTA {
					panic(r)
				}
				i.P.panicSite = ""
				res = true
			default:
				panic(r)
			}
		}()
		call(i, fr, token.NoPos, args[0], nil)
		return false
	}
	externals[vp+"NumThreads"] = func(fr *frame, args []value) value {
		n := 0
		for _, t := range fr.i.S.threads {
			if !t.done {
				n++
			}
		}
		return n
	}
	externals[vp+"Blocked"] = func(fr *frame, args []value) value {
		// number of live threads other than the caller that are blocked
		s := fr.i.S
		n := 0
		for _, t := range s.threads {
			if t != s.cur && !t.done && t.blocked != nil && !t.blocked() {
				n++
			}
		}
		return n
	}
}

func (s *scheduler) pendingTimers() bool {
	for _, t := range s.timers {
		if !t.fired && !t.stopped {
			return true
		}
	}
	return false
}

func (i *interpreter) assert(c value, label string) {
	p := i.P
	ex := p.ex
	ex.mu.Lock()
	ex.Asserts[label]++
	ex.mu.Unlock()
	switch c := c.(type) {
	case bool:
		if !c {
			p.w.report(i, p, &Finding{Kind: "assert", Label: label, Msg: "assertion is false on this path"}, "")
			panic(pathAbort{"violation"})
		}
	case *sym:
		if _, ok := p.pcSet[c.term]; ok {
			return
		}
		neg := "(not " + c.term + ")"
		r := p.w.check(p, neg)
		switch r {
		case "unsat":
			if !p.w.crossCheck(p, neg, "unsat") {
				panic(inconclusive{"solver disagreement on assertion " + label})
			}
			p.addPC(c.term)
		case "sat":
			p.w.report(i, p, &Finding{Kind: "assert", Label: label, Msg: "assertion can be false"}, neg)
			panic(pathAbort{"violation"})
		default:
			panic(inconclusive{"solver returned unknown on assertion " + label})
		}
	default:
		panic(engineBug{fmt.Sprintf("Assert on %T", c)})
	}
}
