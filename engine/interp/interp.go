// Copyright 2013 The Go Authors. All rights reserved.
// Use of this source code is governed by a BSD-style
// license that can be found in the LICENSE file (LICENSE.xtools).
//
// Derived from golang.org/x/tools/go/ssa/interp (v0.50.0).  Modified for
// gosmt: symbolic scalars, solver-decided branches, engine-controlled
// goroutines, lazy package initialisation, per-instance state.

package interp

import (
	"fmt"
	"go/token"
	"go/types"
	"os"
	"runtime"
	"slices"
	"strings"

	"golang.org/x/tools/go/ssa"
)

type continuation int

const (
	kNext continuation = iota
	kReturn
	kJump
)

// Mode is a bitmask of options affecting the interpreter.
type Mode uint

const (
	DisableRecover Mode = 1 << iota // Disable recover() in target programs; show interpreter crash instead.
	EnableTracing                   // Print a trace of all instructions as they are interpreted.
)

// State of one execution (one path).
type interpreter struct {
	prog               *ssa.Program
	globals            map[*ssa.Global]*value
	mode               Mode
	runtimeErrorString types.Type
	sizes              types.Sizes
	ninstr             int
	inited             map[*ssa.Package]bool
	P                  *pathState
	S                  *scheduler
	W                  *Worker
	curFr              *frame
	side               map[any]any // per-execution side tables of intrinsics, keyed by cell
	funcInstr          map[*ssa.Function]int
}

type deferred struct {
	fn    value
	args  []value
	instr *ssa.Defer
	tail  *deferred
}

type frame struct {
	i                *interpreter
	caller           *frame
	fn               *ssa.Function
	block, prevBlock *ssa.BasicBlock
	env              map[ssa.Value]value // dynamic values of SSA variables
	locals           []value
	defers           *deferred
	result           value
	panicking        bool
	panic            any
	phitemps         []value // temporaries for parallel phi assignment
	visits           map[*ssa.BasicBlock]int
	callpos          token.Pos
	cur              ssa.Instruction
}

func (fr *frame) get(key ssa.Value) value {
	switch key := key.(type) {
	case nil:
		return nil
	case *ssa.Function, *ssa.Builtin:
		return key
	case *ssa.Const:
		return constValue(key)
	case *ssa.Global:
		fr.i.ensureInit(key.Pkg)
		if r, ok := fr.i.globals[key]; ok {
			return r
		}
		if key.Pkg != nil && ShouldSkipInit(key.Pkg.Pkg.Path()) && key.Name() != "init$guard" {
			if initTouchedGlobals(key.Pkg)[key] && !zeroOKGlobals[key.String()] {
				panic(unsupported{"read of global " + key.String() + " whose package initialisation is not interpreted"})
			}
		}
		cell := zero(mustDeref(key.Type()))
		fr.i.globals[key] = &cell
		return &cell
	}
	if r, ok := fr.env[key]; ok {
		return r
	}
	panic(fmt.Sprintf("get: no value for %T: %v", key, key.Name()))
}

// runDefer runs a deferred call d.
// It always returns normally, but may set or clear fr.panic.
func (fr *frame) runDefer(d *deferred) {
	var ok bool
	defer func() {
		if !ok {
			// Deferred call created a new state of panic.
			r := recover()
			if isEnginePanic(r) {
				panic(r)
			}
			fr.panicking = true
			fr.panic = r
		}
	}()
	call(fr.i, fr, d.instr.Pos(), d.fn, d.args)
	ok = true
}

// isEnginePanic: panics that are control flow of the engine, not of the target.
func isEnginePanic(r any) bool {
	switch r.(type) {
	case killSentinel, pathAbort, inconclusive, unsupported, engineBug:
		return true
	}
	return false
}

type engineBug struct{ msg string }

// fallthroughMarker is returned by an intrinsic that declines to handle this
// call (e.g. all arguments concrete): the function body is interpreted instead.
type fallthroughMarker struct{}

// runDefers executes fr's deferred function calls in LIFO order.
func (fr *frame) runDefers() {
	for d := fr.defers; d != nil; d = d.tail {
		fr.runDefer(d)
	}
	fr.defers = nil
	if fr.panicking {
		panic(fr.panic) // new panic, or still panicking
	}
}

func lookupMethod(i *interpreter, typ types.Type, meth *types.Func) *ssa.Function {
	return i.prog.LookupMethod(typ, meth.Pkg(), meth.Name())
}

// visitInstr interprets a single ssa.Instruction within the activation
// record frame.  It returns a continuation value indicating where to
// read the next instruction from.
func visitInstr(fr *frame, instr ssa.Instruction) continuation {
	i := fr.i
	switch instr := instr.(type) {
	case *ssa.DebugRef:
		// no-op

	case *ssa.UnOp:
		fr.env[instr] = i.unop(instr, fr.get(instr.X))

	case *ssa.BinOp:
		fr.env[instr] = i.binop(instr.Op, instr.X.Type(), fr.get(instr.X), fr.get(instr.Y))

	case *ssa.Call:
		fn, args := prepareCall(fr, &instr.Call)
		fr.env[instr] = call(fr.i, fr, instr.Pos(), fn, args)

	case *ssa.ChangeInterface:
		fr.env[instr] = fr.get(instr.X)

	case *ssa.ChangeType:
		fr.env[instr] = fr.get(instr.X) // (can't fail)

	case *ssa.Convert:
		fr.env[instr] = i.conv(instr.Type(), instr.X.Type(), fr.get(instr.X))

	case *ssa.SliceToArrayPointer:
		fr.env[instr] = sliceToArrayPointer(instr.Type(), instr.X.Type(), fr.get(instr.X))

	case *ssa.MakeInterface:
		fr.env[instr] = iface{t: instr.X.Type(), v: fr.get(instr.X)}

	case *ssa.Extract:
		fr.env[instr] = fr.get(instr.Tuple).(tuple)[instr.Index]

	case *ssa.Slice:
		fr.env[instr] = i.slice(fr.get(instr.X), fr.get(instr.Low), fr.get(instr.High), fr.get(instr.Max))

	case *ssa.Return:
		switch len(instr.Results) {
		case 0:
		case 1:
			fr.result = fr.get(instr.Results[0])
		default:
			var res []value
			for _, r := range instr.Results {
				res = append(res, fr.get(r))
			}
			fr.result = tuple(res)
		}
		fr.block = nil
		return kReturn

	case *ssa.RunDefers:
		fr.runDefers()

	case *ssa.Panic:
		panic(targetPanic{fr.get(instr.X)})

	case *ssa.Send:
		ch, _ := fr.get(instr.Chan).(*echan)
		i.chanSend(ch, fr.get(instr.X))

	case *ssa.Store:
		addr := fr.get(instr.Addr)
		if sp, ok := addr.(symElemPtr); ok {
			addr = &sp.arr[i.concIndex(sp.idx, len(sp.arr))]
		}
		store(mustDeref(instr.Addr.Type()), addr.(*value), fr.get(instr.Val))

	case *ssa.If:
		succ := 1
		if i.decide(fr.get(instr.Cond)) {
			succ = 0
		}
		fr.prevBlock, fr.block = fr.block, fr.block.Succs[succ]
		return kJump

	case *ssa.Jump:
		fr.prevBlock, fr.block = fr.block, fr.block.Succs[0]
		return kJump

	case *ssa.Defer:
		fn, args := prepareCall(fr, &instr.Call)
		defers := &fr.defers
		if into := fr.get(instr.DeferStack); into != nil {
			defers = into.(**deferred)
		}
		*defers = &deferred{
			fn:    fn,
			args:  args,
			instr: instr,
			tail:  *defers,
		}

	case *ssa.Go:
		fn, args := prepareCall(fr, &instr.Call)
		i.S.spawn(i, fn, args, instr.Pos())
		i.S.yield(yGo, nil)

	case *ssa.MakeChan:
		fr.env[instr] = &echan{cap: int(i.concInt(fr.get(instr.Size), 0, 1<<20, "chan size"))}

	case *ssa.Alloc:
		var addr *value
		if instr.Heap {
			// new
			addr = new(value)
			fr.env[instr] = addr
		} else {
			// local
			addr = fr.env[instr].(*value)
		}
		*addr = zero(mustDeref(instr.Type()))

	case *ssa.MakeSlice:
		c := i.concInt(fr.get(instr.Cap), 0, int64(i.P.ex.Cfg.MaxAlloc), "make cap")
		l := i.concInt(fr.get(instr.Len), 0, int64(i.P.ex.Cfg.MaxAlloc), "make len")
		if l > c {
			panic(targetPanic{"runtime error: makeslice: cap out of range"})
		}
		slice := make([]value, c)
		tElt := instr.Type().Underlying().(*types.Slice).Elem()
		for k := range slice {
			slice[k] = zero(tElt)
		}
		fr.env[instr] = slice[:l]

	case *ssa.MakeMap:
		fr.env[instr] = &amap{}

	case *ssa.Range:
		fr.env[instr] = i.rangeIter(fr.get(instr.X), instr.X.Type())

	case *ssa.Next:
		fr.env[instr] = fr.get(instr.Iter).(iter).next()

	case *ssa.FieldAddr:
		fr.env[instr] = &(*fr.get(instr.X).(*value)).(structure)[instr.Field]

	case *ssa.Field:
		fr.env[instr] = fr.get(instr.X).(structure)[instr.Field]

	case *ssa.IndexAddr:
		x := fr.get(instr.X)
		idx := fr.get(instr.Index)
		switch x := x.(type) {
		case []value:
			fr.env[instr] = &x[i.concIndex(idx, len(x))]
		case *value: // *array
			a := (*x).(array)
			if sx, isSym := idx.(*sym); isSym && len(a) >= 16 && allConcreteInts(a) {
				// address of an element of a constant table at a symbolic index: keep it lazy,
				// a load through it becomes an ite chain instead of a len(a)-way fork
				fr.env[instr] = symElemPtr{arr: a, idx: sx}
			} else {
				fr.env[instr] = &a[i.concIndex(idx, len(a))]
			}
		default:
			panic(fmt.Sprintf("unexpected x type in IndexAddr: %T", x))
		}

	case *ssa.Index:
		x := fr.get(instr.X)
		idx := fr.get(instr.Index)

		switch x := x.(type) {
		case array:
			fr.env[instr] = i.indexTable(x, idx)
		case string:
			if _, ok := idx.(*sym); ok {
				fr.env[instr] = i.indexTable(array(strToSymstr(x)), idx)
			} else {
				fr.env[instr] = x[asInt64(idx)]
			}
		case symstr:
			fr.env[instr] = x[i.concIndex(idx, len(x))]
		case *sym, opaqueStr:
			panic(unsupported{"indexing an atom/opaque string"})
		default:
			panic(fmt.Sprintf("unexpected x type in Index: %T", x))
		}

	case *ssa.Lookup:
		fr.env[instr] = i.lookup(instr, fr.get(instr.X), fr.get(instr.Index))

	case *ssa.MapUpdate:
		m := fr.get(instr.Map).(*amap)
		kt := instr.Map.Type().Underlying().(*types.Map).Key()
		i.mapUpdate(m, kt, fr.get(instr.Key), fr.get(instr.Value))

	case *ssa.TypeAssert:
		fr.env[instr] = typeAssert(fr.i, instr, fr.get(instr.X).(iface))

	case *ssa.MakeClosure:
		var bindings []value
		for _, binding := range instr.Bindings {
			bindings = append(bindings, fr.get(binding))
		}
		fr.env[instr] = &closure{instr.Fn.(*ssa.Function), bindings}

	case *ssa.Phi:
		panic(engineBug{"unreachable: phi"}) // phis are processed at block entry

	case *ssa.Select:
		fr.env[instr] = i.doSelect(instr, fr)

	default:
		panic(fmt.Sprintf("unexpected instruction: %T", instr))
	}

	return kNext
}

// prepareCall determines the function value and argument values for a
// function call in a Call, Go or Defer instruction, performing
// interface method lookup if needed.
func prepareCall(fr *frame, call *ssa.CallCommon) (fn value, args []value) {
	v := fr.get(call.Value)
	if call.Method == nil {
		// Function call.
		fn = v
	} else {
		// Interface method invocation.
		recv := v.(iface)
		if recv.t == nil {
			panic(targetPanic{"runtime error: invalid memory address or nil pointer dereference (method call on nil interface)"})
		}
		if f := lookupMethod(fr.i, recv.t, call.Method); f == nil {
			// Unreachable in well-typed programs.
			panic(fmt.Sprintf("method set for dynamic type %v does not contain %s", recv.t, call.Method))
		} else {
			fn = f
		}
		args = append(args, recv.v)
	}
	for _, arg := range call.Args {
		args = append(args, fr.get(arg))
	}
	return
}

// call interprets a call to a function (function, builtin or closure)
// fn with arguments args, returning its result.
// callpos is the position of the callsite.
func call(i *interpreter, caller *frame, callpos token.Pos, fn value, args []value) value {
	switch fn := fn.(type) {
	case *ssa.Function:
		if fn == nil {
			panic(targetPanic{"runtime error: invalid memory address or nil pointer dereference (call of nil func)"})
		}
		return callSSA(i, caller, callpos, fn, args, nil)
	case *closure:
		return callSSA(i, caller, callpos, fn.Fn, args, fn.Env)
	case *ssa.Builtin:
		return callBuiltin(caller, fn, args)
	case nativeFn:
		fn()
		return nil
	}
	panic(fmt.Sprintf("cannot call %T", fn))
}

func loc(fset *token.FileSet, pos token.Pos) string {
	if pos == token.NoPos {
		return ""
	}
	return " at " + fset.Position(pos).String()
}

// callSSA interprets a call to function fn with arguments args,
// and lexical environment env, returning its result.
// callpos is the position of the callsite.
func callSSA(i *interpreter, caller *frame, callpos token.Pos, fn *ssa.Function, args []value, env []value) value {
	if i.mode&EnableTracing != 0 {
		fset := fn.Prog.Fset
		fmt.Fprintf(os.Stderr, "Entering %s%s.\n", fn, loc(fset, fn.Pos()))
		suffix := ""
		if caller != nil {
			suffix = ", resuming " + caller.fn.String() + loc(fset, callpos)
		}
		defer fmt.Fprintf(os.Stderr, "Leaving %s%s.\n", fn, suffix)
	}
	fr := &frame{
		i:       i,
		caller:  caller, // for panic/recover
		fn:      fn,
		callpos: callpos,
	}
	if fn.Name() == "init" && fn.Pkg != nil && fn.Parent() == nil && fn.Signature.Recv() == nil {
		if caller != nil && caller.fn.Name() == "init" && caller.fn.Pkg != fn.Pkg {
			return nil // lazy: a dependency's init runs on first use of that package
		}
	} else if fn.Pkg != nil {
		i.ensureInit(fn.Pkg)
	} else if o := fn.Origin(); o != nil && o.Pkg != nil {
		i.ensureInit(o.Pkg)
	}
	if fn.Parent() == nil {
		if ext := findExternal(fn); ext != nil {
			if i.mode&EnableTracing != 0 {
				fmt.Fprintln(os.Stderr, "\t(external)")
			}
			r := ext(fr, args)
			if _, ft := r.(fallthroughMarker); !ft {
				i.W.noteStub(fn)
				return r
			}
		}
		if fn.Blocks == nil {
			panic(unsupported{"no code for function: " + fn.String()})
		}
	}

	// generic function body?
	if fn.TypeParams().Len() > 0 && len(fn.TypeArgs()) == 0 {
		panic("interp requires ssa.BuilderMode to include InstantiateGenerics to execute generics")
	}

	fr.env = make(map[ssa.Value]value)
	fr.block = fn.Blocks[0]
	fr.locals = make([]value, len(fn.Locals))
	for k, l := range fn.Locals {
		fr.locals[k] = zero(mustDeref(l.Type()))
		fr.env[l] = &fr.locals[k]
	}
	for k, p := range fn.Params {
		fr.env[p] = args[k]
	}
	for k, fv := range fn.FreeVars {
		fr.env[fv] = env[k]
	}
	n0 := i.ninstr
	for fr.block != nil {
		runFrame(fr)
	}
	i.funcInstr[fn] += i.ninstr - n0
	return fr.result
}

// runFrame executes SSA instructions starting at fr.block and
// continuing until a return, a panic, or a recovered panic.
func runFrame(fr *frame) {
	defer func() {
		if fr.block == nil {
			return // normal return
		}
		if fr.i.mode&DisableRecover != 0 {
			return // let interpreter crash
		}
		r := recover()
		if isEnginePanic(r) {
			panic(r)
		}
		fr.panicking = true
		fr.panic = r
		if fr.i.mode&EnableTracing != 0 {
			fmt.Fprintf(os.Stderr, "Panicking: %T %v.\n", fr.panic, fr.panic)
		}
		if s, ok := r.(string); ok {
			// engine-internal failure, not a target panic
			panic(engineBug{s + " @ " + fr.where()})
		}
		if re, ok := r.(runtime.Error); ok {
			if _, isTA := re.(*runtime.TypeAssertionError); isTA {
				panic(engineBug{"type confusion: " + re.Error() + " @ " + fr.where()})
			}
		}
		if fr.i.P.panicSite == "" {
			fr.i.P.panicSite = fr.where()
		}
		fr.runDefers()
		fr.block = fr.fn.Recover
	}()

	for {
		if fr.i.mode&EnableTracing != 0 {
			fmt.Fprintf(os.Stderr, ".%s:\n", fr.block)
		}
		if fr.visits == nil {
			fr.visits = map[*ssa.BasicBlock]int{}
		}
		fr.visits[fr.block]++
		if fr.visits[fr.block] > fr.i.P.unwind {
			panic(inconclusive{fmt.Sprintf("unwinding bound %d exceeded in %s block %d%s", fr.i.P.unwind, fr.fn, fr.block.Index, loc(fr.fn.Prog.Fset, fr.fn.Pos()))})
		}

		nonPhis := executePhis(fr)
		for _, instr := range nonPhis {
			if fr.i.mode&EnableTracing != 0 {
				if v, ok := instr.(ssa.Value); ok {
					fmt.Fprintln(os.Stderr, "\t", v.Name(), "=", instr)
				} else {
					fmt.Fprintln(os.Stderr, "\t", instr)
				}
			}
			fr.i.ninstr++
			if fr.i.ninstr > fr.i.P.ex.Cfg.MaxInstr {
				panic(inconclusive{"instruction budget exceeded"})
			}
			fr.cur = instr
			fr.i.curFr = fr
			if visitInstr(fr, instr) == kReturn {
				return
			}
			// Inv: kNext (continue) or kJump (last instr)
		}
	}
}

// where describes the current position of a frame for diagnostics.
func (fr *frame) where() string {
	var b strings.Builder
	n := 0
	for f := fr; f != nil && n < 12; f = f.caller {
		pos := token.NoPos
		if f.cur != nil {
			pos = f.cur.Pos()
		}
		if pos == token.NoPos && f.cur != nil {
			// find a nearby instruction with a position
			for _, in := range f.cur.Block().Instrs {
				if in.Pos() != token.NoPos {
					pos = in.Pos()
				}
				if in == f.cur && pos != token.NoPos {
					break
				}
			}
		}
		fmt.Fprintf(&b, "%s%s\n", f.fn, loc(f.fn.Prog.Fset, pos))
		n++
	}
	return b.String()
}

// executePhis executes the phi-nodes at the start of the current
// block and returns the non-phi instructions.
func executePhis(fr *frame) []ssa.Instruction {
	firstNonPhi := -1
	for i, instr := range fr.block.Instrs {
		if _, ok := instr.(*ssa.Phi); !ok {
			firstNonPhi = i
			break
		}
	}
	// Inv: 0 <= firstNonPhi; every block contains a non-phi.

	nonPhis := fr.block.Instrs[firstNonPhi:]
	if firstNonPhi > 0 {
		phis := fr.block.Instrs[:firstNonPhi]
		predIndex := slices.Index(fr.block.Preds, fr.prevBlock)
		fr.phitemps = fr.phitemps[:0]
		for _, phi := range phis {
			phi := phi.(*ssa.Phi)
			fr.phitemps = append(fr.phitemps, fr.get(phi.Edges[predIndex]))
		}
		for i, phi := range phis {
			fr.env[phi.(*ssa.Phi)] = fr.phitemps[i]
		}
	}
	return nonPhis
}

// doRecover implements the recover() built-in.
func doRecover(caller *frame) value {
	// recover() must be exactly one level beneath the deferred
	// function (two levels beneath the panicking function) to
	// have any effect.
	if caller.i.mode&DisableRecover == 0 &&
		caller != nil && !caller.panicking &&
		caller.caller != nil && caller.caller.panicking {
		caller.caller.panicking = false
		p := caller.caller.panic
		caller.caller.panic = nil
		caller.i.P.panicSite = ""

		switch p := p.(type) {
		case targetPanic:
			// The target program explicitly called panic().
			if s, ok := p.v.(string); ok {
				// a runtime panic raised by the engine on behalf of the runtime
				return iface{caller.i.runtimeErrorString, s}
			}
			return p.v
		case runtime.Error:
			// The interpreter encountered a runtime error.
			return iface{caller.i.runtimeErrorString, p.Error()}
		case string:
			// The interpreter explicitly called panic().
			return iface{caller.i.runtimeErrorString, p}
		default:
			panic(fmt.Sprintf("unexpected panic type %T in target call to recover()", p))
		}
	}
	return iface{}
}

func mustDeref(t types.Type) types.Type {
	if p, ok := t.Underlying().(*types.Pointer); ok {
		return p.Elem()
	}
	panic("mustDeref: not a pointer: " + t.String())
}

func (i *interpreter) ensureInit(pkg *ssa.Package) {
	if pkg == nil || i.inited[pkg] {
		return
	}
	i.inited[pkg] = true
	if ShouldSkipInit(pkg.Pkg.Path()) {
		return
	}
	if f := pkg.Func("init"); f != nil {
		if i.mode&EnableTracing != 0 {
			fmt.Fprintln(os.Stderr, "LAZY INIT", pkg.Pkg.Path())
		}
		// package initialisation is not part of any thread's critical
		// section: run it without yielding
		i.S.noYield++
		defer func() {
			i.S.noYield--
			if r := recover(); r != nil {
				if isEnginePanic(r) {
					panic(r)
				}
				panic(engineBug{fmt.Sprintf("panic while initialising package %s: %v", pkg.Pkg.Path(), r)})
			}
		}()
		call(i, nil, token.NoPos, f, nil)
	}
}

func newInterpreter(prog *ssa.Program, w *Worker, p *pathState, sizes types.Sizes, mode Mode) *interpreter {
	i := &interpreter{
		prog:      prog,
		globals:   make(map[*ssa.Global]*value),
		mode:      mode,
		sizes:     sizes,
		inited:    map[*ssa.Package]bool{},
		P:         p,
		W:         w,
		side:      map[any]any{},
		funcInstr: map[*ssa.Function]int{},
	}
	if runtimePkg := prog.ImportedPackage("runtime"); runtimePkg != nil {
		i.runtimeErrorString = runtimePkg.Type("errorString").Object().Type()
	}
	i.S = newScheduler(i, p.ex.Cfg.Preempt)
	return i
}
