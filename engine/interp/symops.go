package interp

// Glue between the concrete interpreter operations and the symbolic layer.

import (
	"fmt"
	"go/token"
	"go/types"
	"math/big"
	"unicode/utf8"
)

// binopSym handles the cases with symbolic / non-native operands; ok=false
// means both operands are plain concrete values.
func (i *interpreter) binopSym(op token.Token, t types.Type, x, y value) (value, bool) {
	switch x.(type) {
	case *sym:
		return i.symBinop(op, t, x, y), true
	case symstr, opaqueStr:
		return i.strBinop(op, x, y), true
	}
	switch y.(type) {
	case *sym:
		return i.symBinop(op, t, x, y), true
	case symstr, opaqueStr:
		return i.strBinop(op, x, y), true
	}
	// concrete division by zero must be a target panic, not a host crash
	if op == token.QUO || op == token.REM {
		switch y.(type) {
		case float32, float64, complex64, complex128:
		default:
			if bigOf(y).Sign() == 0 {
				panic(targetPanic{"runtime error: integer divide by zero"})
			}
		}
	}
	return nil, false
}

func asSymstr(v value) (symstr, bool) {
	switch v := v.(type) {
	case string:
		return strToSymstr(v), true
	case symstr:
		return v, true
	}
	return nil, false
}

func (i *interpreter) strBinop(op token.Token, x, y value) value {
	if _, ok := x.(opaqueStr); ok {
		if op == token.ADD {
			return i.newOpaque()
		}
	}
	if _, ok := y.(opaqueStr); ok {
		if op == token.ADD {
			return i.newOpaque()
		}
	}
	xs, okx := asSymstr(x)
	ys, oky := asSymstr(y)
	if !okx || !oky {
		if op == token.EQL {
			return i.eqv(types.Typ[types.String], x, y)
		}
		if op == token.NEQ {
			return notv(i.eqv(types.Typ[types.String], x, y))
		}
		if op == token.ADD {
			return i.newOpaque()
		}
		panic(unsupported{fmt.Sprintf("string op %s between %T and %T", op, x, y)})
	}
	switch op {
	case token.ADD:
		r := make(symstr, 0, len(xs)+len(ys))
		r = append(r, xs...)
		r = append(r, ys...)
		return normStr(r)
	case token.EQL:
		return i.symstrEq(xs, ys)
	case token.NEQ:
		return notv(i.symstrEq(xs, ys))
	case token.LSS:
		return i.symstrLess(xs, ys, false)
	case token.LEQ:
		return i.symstrLess(xs, ys, true)
	case token.GTR:
		return i.symstrLess(ys, xs, false)
	case token.GEQ:
		return i.symstrLess(ys, xs, true)
	}
	panic(unsupported{"string op " + op.String()})
}

// convSym handles conversions involving symbolic operands.
func (i *interpreter) convSym(utDst, utSrc types.Type, x value) (value, bool) {
	switch x := x.(type) {
	case *sym:
		switch x.kind {
		case kInt:
			if b, ok := utDst.(*types.Basic); ok {
				if isIntKind(b.Kind()) {
					return symConvInt(x, b.Kind()), true
				}
				if b.Kind() == types.String {
					panic(unsupported{"conversion of a symbolic integer to string"})
				}
				if b.Info()&types.IsFloat != 0 {
					panic(unsupported{"conversion of a symbolic integer to float"})
				}
			}
		case kAtom:
			if b, ok := utDst.(*types.Basic); ok && b.Kind() == types.String {
				return x, true
			}
			panic(unsupported{"conversion of an atom string to " + utDst.String()})
		case kBool:
			return x, true
		}
		panic(unsupported{fmt.Sprintf("conversion of symbolic %v to %s", x.kind, utDst)})
	case symstr:
		switch d := utDst.(type) {
		case *types.Basic:
			if d.Kind() == types.String {
				return x, true
			}
		case *types.Slice:
			if eb, ok := d.Elem().Underlying().(*types.Basic); ok && eb.Kind() == types.Byte {
				return append([]value(nil), x...), true
			}
			panic(unsupported{"conversion of a symbolic byte string to []rune"})
		}
	case opaqueStr:
		if d, ok := utDst.(*types.Basic); ok && d.Kind() == types.String {
			return x, true
		}
		panic(unsupported{"conversion of an opaque string"})
	case []value:
		// []byte -> string with symbolic bytes is handled in conv via normStr
	}
	return nil, false
}

// concIndex concretises an index into a sequence of length n; out of range is a Go panic.
func (i *interpreter) concIndex(idx value, n int) int64 {
	sx, ok := idx.(*sym)
	if !ok {
		k := asInt64(idx)
		if k < 0 || k >= int64(n) {
			panic(targetPanic{fmt.Sprintf("runtime error: index out of range [%d] with length %d", k, n)})
		}
		return k
	}
	conds := make([]string, n+1)
	for k := 0; k < n; k++ {
		conds[k] = fmt.Sprintf("(= %s %d)", sx.term, k)
	}
	conds[n] = fmt.Sprintf("(or (< %s 0) (>= %s %d))", sx.term, sx.term, n)
	c := i.P.decideK(dIndex, conds)
	if c == n {
		panic(targetPanic{fmt.Sprintf("runtime error: index out of range [symbolic] with length %d", n)})
	}
	return int64(c)
}

// concBound concretises a slice bound in [lo,hi]; outside is a Go panic.
func (i *interpreter) concBound(v value, lo, hi int64, what string) int64 {
	sx, ok := v.(*sym)
	if !ok {
		return asInt64(v)
	}
	n := int(hi - lo + 1)
	if n < 0 {
		n = 0
	}
	if n > i.P.ex.Cfg.MaxAlloc {
		panic(inconclusive{fmt.Sprintf("symbolic %s with %d possible values exceeds the size bound", what, n)})
	}
	conds := make([]string, n+1)
	for k := 0; k < n; k++ {
		conds[k] = fmt.Sprintf("(= %s %d)", sx.term, lo+int64(k))
	}
	conds[n] = fmt.Sprintf("(or (< %s %d) (> %s %d))", sx.term, lo, sx.term, hi)
	c := i.P.decideK(dIndex, conds)
	if c == n {
		panic(targetPanic{fmt.Sprintf("runtime error: %s out of range [symbolic] (valid %d..%d)", what, lo, hi)})
	}
	return lo + int64(c)
}

// concInt concretises a size (make, chan) within [lo,hi]; a feasible larger
// value is an unwinding failure, a negative one a Go panic.
func (i *interpreter) concInt(v value, lo, hi int64, what string) int64 {
	sx, ok := v.(*sym)
	if !ok {
		k := asInt64(v)
		if k < lo {
			panic(targetPanic{fmt.Sprintf("runtime error: %s out of range", what)})
		}
		if k > 1<<24 {
			panic(inconclusive{fmt.Sprintf("%s %d exceeds the concrete size bound", what, k)})
		}
		return k
	}
	n := int(hi - lo + 1)
	if n > i.P.ex.Cfg.MaxAlloc+1 {
		n = i.P.ex.Cfg.MaxAlloc + 1
	}
	conds := make([]string, n+2)
	for k := 0; k < n; k++ {
		conds[k] = fmt.Sprintf("(= %s %d)", sx.term, lo+int64(k))
	}
	conds[n] = fmt.Sprintf("(< %s %d)", sx.term, lo)
	conds[n+1] = fmt.Sprintf("(> %s %d)", sx.term, lo+int64(n)-1)
	c := i.P.decideK(dIndex, conds)
	switch c {
	case n:
		panic(targetPanic{fmt.Sprintf("runtime error: %s out of range (negative)", what)})
	case n + 1:
		panic(inconclusive{fmt.Sprintf("symbolic %s may exceed the size bound %d", what, lo+int64(n)-1)})
	}
	return lo + int64(c)
}

// indexTable loads tab[idx]; for a symbolic index into a table of concrete
// integers the result is an ite chain (no fork).
func (i *interpreter) indexTable(tab array, idx value) value {
	sx, ok := idx.(*sym)
	if !ok {
		k := asInt64(idx)
		if k < 0 || k >= int64(len(tab)) {
			panic(targetPanic{fmt.Sprintf("runtime error: index out of range [%d] with length %d", k, len(tab))})
		}
		return tab[k]
	}
	allInt := len(tab) > 0
	var bk types.BasicKind
	for _, e := range tab {
		switch e.(type) {
		case int, int8, int16, int32, int64, uint, uint8, uint16, uint32, uint64, uintptr:
		default:
			allInt = false
		}
	}
	if !allInt || len(tab) > 300 {
		return tab[i.concIndex(idx, len(tab))]
	}
	// out of range?
	oob := &sym{term: fmt.Sprintf("(or (< %s 0) (>= %s %d))", sx.term, sx.term, len(tab)), kind: kBool}
	if i.decide(oob) {
		panic(targetPanic{fmt.Sprintf("runtime error: index out of range [symbolic] with length %d", len(tab))})
	}
	bk = kindOfValue(tab[0])
	// group equal values to keep the chain short: default = most common value
	counts := map[string]int{}
	for _, e := range tab {
		t, _ := intTermOf(e)
		counts[t]++
	}
	def, best := "", -1
	for t, c := range counts {
		if c > best || (c == best && t < def) {
			def, best = t, c
		}
	}
	term := def
	for k := len(tab) - 1; k >= 0; k-- {
		t, _ := intTermOf(tab[k])
		if t == def {
			continue
		}
		term = fmt.Sprintf("(ite (= %s %d) %s %s)", sx.term, k, t, term)
	}
	return &sym{term: term, kind: kInt, bk: bk}
}

// symElemPtr is the address of an element of a table of concrete integers at a symbolic index.
type symElemPtr struct {
	arr array
	idx *sym
}

func allConcreteInts(a array) bool {
	for _, e := range a {
		switch e.(type) {
		case int, int8, int16, int32, int64, uint, uint8, uint16, uint32, uint64, uintptr:
		default:
			return false
		}
	}
	return true
}

func kindOfValue(v value) types.BasicKind {
	switch v.(type) {
	case int:
		return types.Int
	case int8:
		return types.Int8
	case int16:
		return types.Int16
	case int32:
		return types.Int32
	case int64:
		return types.Int64
	case uint:
		return types.Uint
	case uint8:
		return types.Uint8
	case uint16:
		return types.Uint16
	case uint32:
		return types.Uint32
	case uint64:
		return types.Uint64
	case uintptr:
		return types.Uintptr
	case bool:
		return types.Bool
	case string:
		return types.String
	}
	return types.Invalid
}

// atomLen models len(atom): an unconstrained non-negative integer that is zero
// iff the atom is the empty string (over-approximation; replays decide).
func (i *interpreter) atomLen(a *sym) value {
	if a.kind != kAtom {
		panic(unsupported{"len of a non-string symbolic value"})
	}
	if l, ok := i.P.lenCache[a.term]; ok {
		return l
	}
	n := i.P.fresh("len", "Int")
	i.P.addPC("(>= " + n + " 0)")
	i.P.addPC("(< " + n + " 4096)")
	i.P.addPC("(= (= " + n + " 0) (= " + a.term + " 0))")
	l := &sym{term: n, kind: kInt, bk: types.Int}
	i.P.lenCache[a.term] = l
	i.P.lenAtoms = append(i.P.lenAtoms, [2]string{n, a.term})
	return l
}

// symstrIter ranges over a byte string with symbolic bytes: each lead byte is
// decided ASCII / non-ASCII; non-ASCII symbolic bytes are unsupported.
type symstrIter struct {
	i   *interpreter
	s   symstr
	pos int
}

func (it *symstrIter) next() tuple {
	if it.pos >= len(it.s) {
		return tuple{false, nil, nil}
	}
	b := it.s[it.pos]
	switch b := b.(type) {
	case uint8:
		if b < utf8.RuneSelf {
			idx := it.pos
			it.pos++
			return tuple{true, idx, int32(b)}
		}
		// concrete multi-byte sequence?
		j := it.pos
		var buf []byte
		for j < len(it.s) && len(buf) < 4 {
			c, ok := it.s[j].(uint8)
			if !ok {
				break
			}
			buf = append(buf, c)
			j++
		}
		r, n := utf8.DecodeRune(buf)
		idx := it.pos
		it.pos += n
		return tuple{true, idx, r}
	case *sym:
		ascii := &sym{term: "(< " + b.term + " 128)", kind: kBool}
		if !it.i.decide(ascii) {
			panic(unsupported{"range over a byte string whose symbolic byte is not ASCII"})
		}
		idx := it.pos
		it.pos++
		return tuple{true, idx, symConvInt(b, types.Int32)}
	}
	panic(fmt.Sprintf("symstrIter: %T", b))
}

var _ = big.NewInt
