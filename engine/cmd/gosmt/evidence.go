package main

import (
	"encoding/json"
	"fmt"
	"os"
	"path/filepath"
	"sort"
	"strings"

	"gosmt/interp"
)

type funcCount struct {
	Fn    string `json:"fn"`
	Instr int    `json:"ssa_instructions_executed"`
}

func writeEvidence(ps *PropSpec, tier string, seed int, results []*HarnessResult, ld *loaded, wall float64, exit int) {
	states, transitions, validated := 0, int64(0), 0
	var samples []any
	var harnesses []any
	funcs := map[string]int{}
	stubs := map[string]int{}
	queries := interp.SolverStats{}
	violations := 0
	var knownF []string
	covers := map[string]int{}
	var bounds []string
	for _, hr := range results {
		ex := hr.Ex
		states += ex.Paths
		transitions += ex.Decisions
		validated += hr.Validated
		queries.Queries += ex.Solver.Queries
		queries.Sat += ex.Solver.Sat
		queries.Unsat += ex.Solver.Unsat
		queries.Unknown += ex.Solver.Unknown
		queries.Seconds += ex.Solver.Seconds
		queries.CrossChecked += ex.Solver.CrossChecked
		queries.Disagree += ex.Solver.Disagree
		for f, c := range ex.FuncInstr {
			funcs[f] += c
		}
		for f, c := range ex.Stubs {
			stubs[f] += c
		}
		for c, n := range ex.Covers {
			covers[hr.Spec.Fn+": "+c] += n
		}
		n := 0
		for _, s := range ex.Samples {
			if s == nil || n >= 3 {
				continue
			}
			n++
			samples = append(samples, map[string]any{"harness": hr.Spec.Fn, "decision_vector": s.Path, "model_inputs": s.Inputs, "observations": s.Obs, "cover_points": s.Covers})
		}
		for _, cf := range hr.Confirmed {
			if cf.Status == "not-reproduced" {
				continue
			}
			if cf.Known != nil {
				knownF = append(knownF, cf.Known.Text)
			} else {
				violations++
			}
		}
		inc := []string{}
		for r, c := range ex.Inconclusive {
			inc = append(inc, fmt.Sprintf("%s (x%d)", r, c))
		}
		asserts := 0
		for _, c := range ex.Asserts {
			asserts += c
		}
		bounds = append(bounds, hr.Spec.Fn+": "+hr.Spec.Bounds)
		harnesses = append(harnesses, map[string]any{
			"harness": hr.Spec.Pkg + "." + hr.Spec.Fn, "bounds": hr.Spec.Bounds,
			"paths_completed": ex.Paths, "paths_pruned_by_assume": ex.Pruned, "decisions": ex.Decisions,
			"assertion_labels": len(ex.Asserts), "assertion_evaluations": asserts,
			"solver_queries": ex.Solver.Queries, "sat": ex.Solver.Sat, "unsat": ex.Solver.Unsat, "unknown": ex.Solver.Unknown,
			"solver_s": round2(ex.Solver.Seconds), "cross_checked_cvc5": ex.Solver.CrossChecked, "solver_disagreements": ex.Solver.Disagree,
			"ssa_instructions": ex.Instr, "max_threads": ex.MaxThreads, "thread_switches": ex.Switches,
			"unwind_bound": ex.Cfg.Unwind, "preemption_bound": ex.Cfg.Preempt, "cover_points_missing": hr.Missing,
			"inconclusive": inc, "native_validated_paths": hr.Validated, "native_validation_mismatches": hr.ValidationMismatch, "wall_s": round2(hr.WallS),
		})
	}
	// functions of the repository that were executed symbolically
	var fl []funcCount
	repoFns := 0
	for f, c := range funcs {
		if strings.Contains(f, modPath) && !strings.Contains(f, "/zzverif") {
			fl = append(fl, funcCount{f, c})
			repoFns++
		}
	}
	sort.Slice(fl, func(a, b int) bool { return fl[a].Instr > fl[b].Instr })
	if len(fl) > 80 {
		fl = fl[:80]
	}
	var stubList []string
	for f := range stubs {
		stubList = append(stubList, f)
	}
	sort.Strings(stubList)
	if samples == nil {
		samples = []any{"no completed path"}
	}
	assumptions := append([]string{
		"go/packages+go/ssa (x/tools v0.50.0) front end; gosmt symbolic interpreter (validated per harness by native differential replay of sampled paths)",
		"z3 5.1.0 (z3-new); cvc5 1.0.3 cross-check of assertion queries in the thorough tier",
		"integers: LIA with exact wrap-around; strings: atoms (order-embedded Ints) or byte strings of concrete length",
		"interleavings only at synchronisation points; timers fire when all goroutines are blocked (synctest semantics)",
	}, ps.Assumptions...)
	for _, o := range ps.Outside {
		assumptions = append(assumptions, "outside the claim: "+o)
	}
	ev := map[string]any{
		"property_id": ps.ID,
		"tier":        tier,
		"seed":        seed,
		"level":       "model_checking",
		"coverage": map[string]any{
			"states":                        states,
			"transitions":                   transitions,
			"traces_validated_against_impl": validated,
			"samples":                       samples,
			"explanation":                   "states = symbolic paths of the harnesses executed to completion on the go/ssa form of /repo's current tree (each path stands for all inputs taking the same branches); transitions = decisions (solver-decided branches, choices, scheduler and select decisions); every feasible outcome of every decision within the bounds was explored, every assertion on every path was discharged by an unsat answer",
			"exhaustive":                    true,
			"harnesses":                     harnesses,
			"bounds":                        bounds,
			"functions_encoded":             fl,
			"repo_functions_executed":       repoFns,
			"intrinsics_and_stubs_hit":      stubList,
			"solver":                        map[string]any{"queries": queries.Queries, "sat": queries.Sat, "unsat": queries.Unsat, "unknown": queries.Unknown, "seconds": round2(queries.Seconds), "cross_checked_cvc5": queries.CrossChecked, "disagreements": queries.Disagree},
			"cover_points":                  covers,
			"known_findings":                knownF,
			"load_s":                        round2(ld.loadS),
		},
		"assumptions": assumptions,
		"wall_s":      round2(wall),
		"violations":  violations,
	}
	os.MkdirAll(filepath.Join(verifDir, "evidence"), 0o755)
	b, _ := json.MarshalIndent(ev, "", " ")
	os.WriteFile(filepath.Join(verifDir, "evidence", ps.ID+".json"), b, 0o644)
}

func round2(f float64) float64 { return float64(int(f*100+0.5)) / 100 }
