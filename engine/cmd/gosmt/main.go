// gosmt: solver-based checking of cosi-project/runtime on its go/ssa form.
package main

import (
	"encoding/json"
	"flag"
	"fmt"
	"go/types"
	"os"
	"os/exec"
	"path/filepath"
	"sort"
	"strings"
	"time"

	"golang.org/x/tools/go/packages"
	"golang.org/x/tools/go/ssa"
	"golang.org/x/tools/go/ssa/ssautil"

	"gosmt/interp"
)

const repoDir = "/repo"
const modPath = "github.com/cosi-project/runtime"

var verifDir = "/verif"

type HarnessSpec struct {
	Pkg      string   `json:"pkg"`  // repo-relative directory of the overlay package
	Fn       string   `json:"fn"`   // function name
	Tiers    []string `json:"tiers"` // tiers in which it runs (default both)
	Unwind   int      `json:"unwind,omitempty"`
	Preempt  *int     `json:"preempt,omitempty"`
	PreemptThorough *int `json:"preempt_thorough,omitempty"`
	Covers   []string `json:"covers"` // cover points that must be reached
	CoversThorough []string `json:"covers_thorough,omitempty"`
	Native   *bool    `json:"native,omitempty"` // replay natively (default: true unless threads > 1)
	MaxPaths int      `json:"max_paths,omitempty"`
	Bounds   string   `json:"bounds"`
	Encodes  []string `json:"encodes,omitempty"`
}

type PropSpec struct {
	ID          string        `json:"id"`
	Harnesses   []HarnessSpec `json:"harnesses"`
	Assumptions []string      `json:"assumptions"`
	Outside     []string      `json:"outside"`
}

type Registry struct {
	Props []PropSpec `json:"props"`
}

type KnownFinding struct {
	Property string `json:"property"`
	Harness  string `json:"harness"` // function name
	Kind     string `json:"kind"`
	Label    string `json:"label"`
	Case     string `json:"case"`
	MsgContains string `json:"msg_contains,omitempty"`
	Text     string `json:"text"`
}

type KnownFile struct {
	Known []KnownFinding `json:"known"`
	Fixed []string       `json:"fixed"`
}

func goEnv() []string {
	env := os.Environ()
	var out []string
	for _, e := range env {
		if strings.HasPrefix(e, "GOFLAGS=") || strings.HasPrefix(e, "GOPROXY=") || strings.HasPrefix(e, "GOSUMDB=") || strings.HasPrefix(e, "GOTOOLCHAIN=") || strings.HasPrefix(e, "PATH=") {
			continue
		}
		out = append(out, e)
	}
	out = append(out, "GOFLAGS=-mod=mod", "GOPROXY=off", "GOSUMDB=off", "GOTOOLCHAIN=local", "PATH="+os.Getenv("PATH"))
	return out
}

// overlayFiles maps /repo/<rel> -> /verif/harness/<rel> for every harness file,
// plus explicit replacements (mutants).
func overlayFiles(extra map[string]string) map[string]string {
	m := map[string]string{}
	root := filepath.Join(verifDir, "harness")
	filepath.Walk(root, func(path string, info os.FileInfo, err error) error {
		if err != nil || info.IsDir() || !strings.HasSuffix(path, ".go") {
			return nil
		}
		rel, _ := filepath.Rel(root, path)
		m[filepath.Join(repoDir, rel)] = path
		return nil
	})
	for k, v := range extra {
		m[k] = v
	}
	return m
}

type loaded struct {
	prog  *ssa.Program
	pkgs  map[string]*ssa.Package
	sizes types.Sizes
	loadS float64
}

func load(patterns []string, ov map[string]string) (*loaded, error) {
	t0 := time.Now()
	overlay := map[string][]byte{}
	for virt, real := range ov {
		b, err := os.ReadFile(real)
		if err != nil {
			return nil, err
		}
		overlay[virt] = b
	}
	cfg := &packages.Config{
		Mode:    packages.LoadAllSyntax,
		Dir:     repoDir,
		Overlay: overlay,
		Env:     goEnv(),
	}
	pkgs, err := packages.Load(cfg, patterns...)
	if err != nil {
		return nil, err
	}
	nerr := 0
	packages.Visit(pkgs, nil, func(p *packages.Package) {
		for _, e := range p.Errors {
			if nerr < 20 {
				fmt.Fprintln(os.Stderr, "load error:", p.PkgPath, e)
			}
			nerr++
		}
	})
	if nerr > 0 {
		return nil, fmt.Errorf("%d package load errors", nerr)
	}
	prog, spkgs := ssautil.AllPackages(pkgs, ssa.InstantiateGenerics)
	prog.Build()
	l := &loaded{prog: prog, pkgs: map[string]*ssa.Package{}, sizes: types.SizesFor("gc", "amd64")}
	for k, p := range pkgs {
		if spkgs[k] != nil {
			l.pkgs[p.PkgPath] = spkgs[k]
		}
	}
	l.loadS = time.Since(t0).Seconds()
	return l, nil
}

func has(list []string, s string) bool {
	for _, x := range list {
		if x == s {
			return true
		}
	}
	return false
}

type HarnessResult struct {
	Spec   HarnessSpec
	Ex     *interp.Explorer
	Missing []string // unreached cover points
	Confirmed []*ConfirmedFinding
	Validated int
	ValidationMismatch []string
	WallS  float64
}

type ConfirmedFinding struct {
	F        *interp.Finding
	Replay   string
	Status   string // "reproduced-native" | "reproduced-ssa" | "not-reproduced"
	Detail   string
	Known    *KnownFinding
}

func main() {
	if len(os.Args) < 2 {
		fmt.Println("usage: gosmt run -prop <id> -tier quick|thorough | gosmt replay -prop <id> -file <replay.json>")
		os.Exit(2)
	}
	if v := os.Getenv("GOSMT_VERIF_DIR"); v != "" {
		verifDir = v
	}
	os.Setenv("PATH", "/opt/veriftools/go1.26.8/bin:"+os.Getenv("PATH"))
	os.Setenv("GOFLAGS", "-mod=mod")
	os.Setenv("GOPROXY", "off")
	os.Setenv("GOSUMDB", "off")
	os.Setenv("GOTOOLCHAIN", "local")
	switch os.Args[1] {
	case "run":
		os.Exit(cmdRun(os.Args[2:]))
	case "replay":
		os.Exit(cmdReplay(os.Args[2:]))
	default:
		fmt.Println("unknown command", os.Args[1])
		os.Exit(2)
	}
}

func readRegistry() (*Registry, error) {
	b, err := os.ReadFile(filepath.Join(verifDir, "harness", "props.json"))
	if err != nil {
		return nil, err
	}
	r := &Registry{}
	if err := json.Unmarshal(b, r); err != nil {
		return nil, err
	}
	return r, nil
}

func readKnown() *KnownFile {
	k := &KnownFile{}
	b, err := os.ReadFile(filepath.Join(verifDir, "known_findings.json"))
	if err == nil {
		json.Unmarshal(b, k)
	}
	return k
}

type mutantFlag map[string]string

func (m mutantFlag) String() string { return fmt.Sprint(map[string]string(m)) }
func (m mutantFlag) Set(s string) error {
	k := strings.SplitN(s, "=", 2)
	if len(k) != 2 {
		return fmt.Errorf("want repo/rel/path.go=/abs/replacement.go")
	}
	m[filepath.Join(repoDir, k[0])] = k[1]
	return nil
}

func cmdRun(args []string) int {
	fs := flag.NewFlagSet("run", flag.ExitOnError)
	prop := fs.String("prop", "", "property id")
	tier := fs.String("tier", "quick", "quick|thorough")
	only := fs.String("only", "", "run only this harness function")
	workers := fs.Int("workers", 14, "worker count")
	trace := fs.Bool("trace", false, "trace instructions")
	noEvidence := fs.Bool("no-evidence", false, "do not write the evidence file")
	noNative := fs.Bool("no-native", false, "skip native replays/validation")
	maxPaths := fs.Int("max-paths", 0, "override path budget")
	budget := fs.Duration("budget", 0, "wall-clock budget per harness")
	estimate := fs.Int("estimate", 0, "development aid: estimate the number of paths from this many random probes (no verdict)")
	mut := mutantFlag{}
	fs.Var(mut, "mutant", "overlay replacement repo/rel/file.go=/abs/file.go (self-test)")
	fs.Parse(args)
	t0 := time.Now()
	reg, err := readRegistry()
	if err != nil {
		fmt.Println("gosmt: cannot read registry:", err)
		return 2
	}
	var ps *PropSpec
	for k := range reg.Props {
		if reg.Props[k].ID == *prop {
			ps = &reg.Props[k]
		}
	}
	if ps == nil {
		fmt.Println("gosmt: unknown property", *prop)
		return 2
	}
	seed := 0
	fmt.Sscan(os.Getenv("VERIF_SEED"), &seed)

	var specs []HarnessSpec
	pkgset := map[string]bool{}
	for _, h := range ps.Harnesses {
		if len(h.Tiers) > 0 && !has(h.Tiers, *tier) {
			continue
		}
		if *only != "" && h.Fn != *only {
			continue
		}
		specs = append(specs, h)
		pkgset["./"+h.Pkg] = true
	}
	if len(specs) == 0 {
		fmt.Println("gosmt: no harness selected")
		return 2
	}
	var patterns []string
	for p := range pkgset {
		patterns = append(patterns, p)
	}
	sort.Strings(patterns)
	ov := overlayFiles(mut)
	ld, err := load(patterns, ov)
	if err != nil {
		fmt.Println("gosmt: load failed:", err)
		return 2
	}
	fmt.Printf("gosmt: loaded %v in %.1fs\n", patterns, ld.loadS)

	known := readKnown()
	var results []*HarnessResult
	exit := 0
	inconclusive := false
	for _, h := range specs {
		pkg := ld.pkgs[modPath+"/"+h.Pkg]
		if pkg == nil {
			fmt.Println("gosmt: harness package not loaded:", h.Pkg)
			return 2
		}
		fn := pkg.Func(h.Fn)
		if fn == nil {
			fmt.Println("gosmt: harness function not found:", h.Pkg, h.Fn)
			return 2
		}
		cfg := interp.DefaultConfig()
		cfg.Workers = *workers
		cfg.Trace = *trace
		if *tier == "thorough" {
			cfg.SolverTimeoutMs = 120000
			cfg.CrossCheck = true
			cfg.ValidateSamples = 60
			cfg.Preempt = 2
		}
		if h.Unwind > 0 {
			cfg.Unwind = h.Unwind
		}
		if h.Preempt != nil {
			cfg.Preempt = *h.Preempt
		}
		if *tier == "thorough" && h.PreemptThorough != nil {
			cfg.Preempt = *h.PreemptThorough
		}
		if h.MaxPaths > 0 {
			cfg.MaxPaths = h.MaxPaths
		}
		if *maxPaths > 0 {
			cfg.MaxPaths = *maxPaths
		}
		if *budget > 0 {
			cfg.Deadline = time.Now().Add(*budget)
		} else if *tier == "quick" {
			cfg.Deadline = time.Now().Add(15 * time.Minute)
		} else {
			cfg.Deadline = time.Now().Add(3 * time.Hour)
		}
		th := time.Now()
		cfg.Estimate = *estimate
		ex := interp.NewExplorer(ld.prog, fn, ld.sizes, cfg, *tier)
		ex.Run()
		if *estimate > 0 {
			est := ex.EstSum / float64(ex.Paths)
			per := ex.Wall.Seconds() * float64(cfg.Workers) / float64(ex.Paths)
			fmt.Printf("gosmt: ESTIMATE %s.%s: ~%.3g paths (from %d probes), %.1f ms/path/worker, ~%.0f s on 14 workers\n", h.Pkg, h.Fn, est, ex.Paths, per*1000, est*per/14)
			inconclusive = true
			continue
		}
		hr := &HarnessResult{Spec: h, Ex: ex}
		want := append([]string(nil), h.Covers...)
		if *tier == "thorough" {
			want = append(want, h.CoversThorough...)
		}
		for _, c := range want {
			if ex.Covers[c] == 0 {
				hr.Missing = append(hr.Missing, c)
			}
		}
		fmt.Printf("gosmt: %s.%s: paths=%d pruned=%d decisions=%d queries=%d (sat %d unsat %d unknown %d) solver=%.1fs threads<=%d findings=%d inconclusive=%d wall=%.1fs\n",
			h.Pkg, h.Fn, ex.Paths, ex.Pruned, ex.Decisions, ex.Solver.Queries, ex.Solver.Sat, ex.Solver.Unsat, ex.Solver.Unknown, ex.Solver.Seconds, ex.MaxThreads, len(ex.Findings), len(ex.Inconclusive), ex.Wall.Seconds())
		for r, n := range ex.Inconclusive {
			fmt.Printf("gosmt:   INCONCLUSIVE x%d: %s\n", n, r)
			inconclusive = true
		}
		for k, pth := range ex.InconcPaths {
			if k < 2 {
				fmt.Printf("gosmt:   inconclusive path: %v\n", pth)
			}
		}
		if len(hr.Missing) > 0 {
			fmt.Printf("gosmt:   VACUOUS: cover points not reached: %v\n", hr.Missing)
			inconclusive = true
		}
		if ex.Solver.Disagree > 0 {
			fmt.Printf("gosmt:   solver disagreement on %d queries\n", ex.Solver.Disagree)
			inconclusive = true
		}
		// confirm findings
		confirmFindings(ld, ov, ps, hr, fn, cfg, *tier, known, *noNative)
		for _, cf := range hr.Confirmed {
			switch {
			case cf.Status == "not-reproduced":
				fmt.Printf("gosmt:   NOT REPRODUCED (%s): %s %q case=%q: %s\n", cf.Detail, cf.F.Kind, cf.F.Label, cf.F.Case, cf.F.Msg)
				inconclusive = true
			case cf.Known != nil:
				fmt.Printf("KNOWN-FINDING: property=%s %s\n", ps.ID, cf.Known.Text)
			default:
				fmt.Printf("gosmt:   %s %q case=%q: %s [%s]\n%s", cf.F.Kind, cf.F.Label, cf.F.Case, cf.F.Msg, cf.Status, indent(cf.F.Site))
				fmt.Printf("VIOLATION property=%s replay=%s\n", ps.ID, cf.Replay)
				exit = 1
			}
		}
		if !*noNative {
			validateSamples(ld, ov, ps, hr, *tier)
			if len(hr.ValidationMismatch) > 0 {
				for _, m := range hr.ValidationMismatch {
					fmt.Printf("gosmt:   ENCODER MISMATCH: %s\n", m)
				}
				inconclusive = true
			}
		}
		hr.WallS = time.Since(th).Seconds()
		results = append(results, hr)
	}
	if !*noEvidence {
		writeEvidence(ps, *tier, seed, results, ld, time.Since(t0).Seconds(), exit)
	}
	if exit == 0 && inconclusive {
		fmt.Println("gosmt: INCONCLUSIVE")
		return 2
	}
	if exit == 0 {
		fmt.Printf("gosmt: property %s held on everything explored (%s tier, %.1fs)\n", ps.ID, *tier, time.Since(t0).Seconds())
	}
	return exit
}

func indent(s string) string {
	if s == "" {
		return ""
	}
	lines := strings.Split(strings.TrimRight(s, "\n"), "\n")
	if len(lines) > 8 {
		lines = lines[:8]
	}
	return "gosmt:       " + strings.Join(lines, "\ngosmt:       ") + "\n"
}

func matchKnown(known *KnownFile, prop string, f *interp.Finding) *KnownFinding {
	fnName := f.Harness
	if k := strings.LastIndexByte(fnName, '.'); k >= 0 {
		fnName = fnName[k+1:]
	}
	for k := range known.Known {
		kf := &known.Known[k]
		if kf.Property != prop || kf.Kind != f.Kind || kf.Label != f.Label || kf.Case != f.Case {
			continue
		}
		if kf.Harness != "" && kf.Harness != fnName {
			continue
		}
		if kf.MsgContains != "" && !strings.Contains(f.Msg+"\n"+f.Site, kf.MsgContains) {
			continue
		}
		return kf
	}
	return nil
}

type replayFile struct {
	Harness string              `json:"harness"`
	Tier    string              `json:"tier"`
	Inputs  []interp.InputValue `json:"inputs"`
	Nondet  []int32             `json:"nondet,omitempty"`
	Path    []int32             `json:"path,omitempty"`
	Expect  map[string]string   `json:"expect,omitempty"`
	Threads int                 `json:"threads,omitempty"`
	Property string             `json:"property,omitempty"`
	Pkg     string              `json:"pkg,omitempty"`
	Site    string              `json:"site,omitempty"`
	Preempt int                 `json:"delay_bound"`
	Unwind  int                 `json:"unwind,omitempty"`
}

func workDir() string {
	d := filepath.Join(verifDir, ".work")
	os.MkdirAll(d, 0o755)
	return d
}

// buildNative compiles the test binary of a harness package with a generated
// replay driver; returns the binary path.
func buildNative(ov map[string]string, pkgRel string, fns []string) (string, error) {
	wd, err := os.MkdirTemp(workDir(), "native-")
	if err != nil {
		return "", err
	}
	pkgName := ""
	// find the package name from any harness file of that dir
	for virt, real := range ov {
		if filepath.Dir(virt) == filepath.Join(repoDir, pkgRel) && !strings.HasSuffix(virt, "_test.go") {
			b, _ := os.ReadFile(real)
			for _, line := range strings.Split(string(b), "\n") {
				if strings.HasPrefix(line, "package ") {
					pkgName = strings.TrimSpace(strings.TrimPrefix(line, "package "))
					break
				}
			}
			if pkgName != "" {
				break
			}
		}
	}
	if pkgName == "" {
		return "", fmt.Errorf("cannot determine package name of %s", pkgRel)
	}
	var b strings.Builder
	fmt.Fprintf(&b, "package %s\n\nimport (\n\t\"testing\"\n\t\"%s/zzverif/verif\"\n)\n\nfunc TestGosmtReplay(t *testing.T) {\n\tverif.RunReplays(map[string]func(){\n", pkgName, modPath)
	for _, f := range fns {
		fmt.Fprintf(&b, "\t\t%q: %s,\n", f, f)
	}
	b.WriteString("\t})\n}\n")
	drv := filepath.Join(wd, "zz_gosmt_replay_test.go")
	os.WriteFile(drv, []byte(b.String()), 0o644)
	rep := map[string]string{}
	for k, v := range ov {
		rep[k] = v
	}
	rep[filepath.Join(repoDir, pkgRel, "zz_gosmt_replay_test.go")] = drv
	oj, _ := json.Marshal(map[string]any{"Replace": rep})
	ovf := filepath.Join(wd, "overlay.json")
	os.WriteFile(ovf, oj, 0o644)
	bin := filepath.Join(wd, "replay.test")
	cmd := exec.Command("go", "test", "-c", "-vet=off", "-overlay", ovf, "-o", bin, "./"+pkgRel)
	cmd.Dir = repoDir
	cmd.Env = goEnv()
	out, err := cmd.CombinedOutput()
	if err != nil {
		return "", fmt.Errorf("native build failed: %v\n%s", err, out)
	}
	return bin, nil
}

type nativeResult struct {
	Outcome string              `json:"outcome"`
	Label   string              `json:"label"`
	Case    string              `json:"case"`
	Msg     string              `json:"msg"`
	Stack   string              `json:"stack"`
	Obs     []interp.InputValue `json:"observations"`
	Covers  []string            `json:"covers"`
}

func runNative(bin string, files []string) (map[string]*nativeResult, error) {
	list := filepath.Join(filepath.Dir(bin), "list.txt")
	os.WriteFile(list, []byte(strings.Join(files, "\n")+"\n"), 0o644)
	cmd := exec.Command("timeout", "600", bin, "-test.run", "TestGosmtReplay", "-test.count=1")
	cmd.Env = append(os.Environ(), "GOSMT_REPLAYS="+list)
	cmd.Dir = filepath.Dir(bin)
	out, err := cmd.CombinedOutput()
	res := map[string]*nativeResult{}
	for _, f := range files {
		b, e := os.ReadFile(f + ".out.json")
		if e != nil {
			continue
		}
		nr := &nativeResult{}
		json.Unmarshal(b, nr)
		res[f] = nr
		os.Remove(f + ".out.json")
	}
	if err != nil && len(res) < len(files) {
		return res, fmt.Errorf("native replay run failed: %v\n%s", err, tail(string(out), 2000))
	}
	return res, nil
}

func tail(s string, n int) string {
	if len(s) > n {
		return s[len(s)-n:]
	}
	return s
}

func confirmFindings(ld *loaded, ov map[string]string, ps *PropSpec, hr *HarnessResult, fn *ssa.Function, cfg interp.Config, tier string, known *KnownFile, noNative bool) {
	ex := hr.Ex
	if len(ex.Findings) == 0 {
		return
	}
	dir := filepath.Join(verifDir, "replays", ps.ID)
	os.MkdirAll(dir, 0o755)
	var native []*ConfirmedFinding
	var files []string
	for k, f := range ex.Findings {
		cf := &ConfirmedFinding{F: f}
		rf := replayFile{Harness: f.Harness, Tier: tier, Inputs: f.Inputs, Nondet: f.Nondet, Path: f.Path, Threads: f.Threads, Property: ps.ID, Pkg: hr.Spec.Pkg, Site: f.Site, Preempt: cfg.Preempt, Unwind: cfg.Unwind,
			Expect: map[string]string{"kind": f.Kind, "label": f.Label, "case": f.Case, "msg": f.Msg}}
		name := fmt.Sprintf("%s-%d.json", hr.Spec.Fn, k)
		cf.Replay = filepath.Join(dir, name)
		b, _ := json.MarshalIndent(rf, "", " ")
		os.WriteFile(cf.Replay, b, 0o644)
		hr.Confirmed = append(hr.Confirmed, cf)
		if !f.ModelOK {
			cf.Status, cf.Detail = "not-reproduced", "no model"
			continue
		}
		useNative := f.Threads <= 1 && !noNative
		if hr.Spec.Native != nil {
			useNative = *hr.Spec.Native && !noNative
		}
		if useNative {
			native = append(native, cf)
			files = append(files, cf.Replay)
		} else {
			out, detail := interp.ConcreteRun(ld.prog, fn, ld.sizes, cfg, tier, f.Inputs, f.Nondet)
			if out == f.Key() {
				cf.Status = "reproduced-ssa"
			} else {
				cf.Status, cf.Detail = "not-reproduced", "concrete SSA re-execution gave "+out+" "+detail
			}
		}
	}
	if len(native) > 0 {
		bin, err := buildNative(ov, hr.Spec.Pkg, []string{hr.Spec.Fn})
		if err != nil {
			for _, cf := range native {
				cf.Status, cf.Detail = "not-reproduced", err.Error()
			}
		} else {
			res, err := runNative(bin, files)
			for _, cf := range native {
				nr := res[cf.Replay]
				switch {
				case nr == nil:
					cf.Status, cf.Detail = "not-reproduced", fmt.Sprintf("no native result (%v)", err)
				case nr.Outcome == cf.F.Kind && (cf.F.Kind == "panic" || nr.Label == cf.F.Label):
					cf.Status = "reproduced-native"
					if cf.F.Kind == "panic" {
						cf.F.Msg += " | native: " + nr.Msg
						if cf.F.Site == "" {
							cf.F.Site = nr.Stack
						}
					}
				default:
					cf.Status, cf.Detail = "not-reproduced", fmt.Sprintf("native outcome=%s label=%q msg=%q", nr.Outcome, nr.Label, nr.Msg)
				}
			}
			os.RemoveAll(filepath.Dir(bin))
		}
	}
	for _, cf := range hr.Confirmed {
		if cf.Status != "not-reproduced" {
			cf.Known = matchKnown(known, ps.ID, cf.F)
		}
	}
}

// validateSamples replays models of passing paths natively and compares
// outcome and observations (encoder validation).
func validateSamples(ld *loaded, ov map[string]string, ps *PropSpec, hr *HarnessResult, tier string) {
	ex := hr.Ex
	if hr.Spec.Native != nil && !*hr.Spec.Native {
		return
	}
	var samples []*interp.Sample
	for _, s := range ex.Samples {
		if s != nil && s.Threads <= 1 && (s.Inputs != nil || s.Obs != nil || len(s.Path) == 0) {
			samples = append(samples, s)
		}
	}
	if len(samples) == 0 {
		return
	}
	wd, _ := os.MkdirTemp(workDir(), "validate-")
	defer os.RemoveAll(wd)
	var files []string
	for k, s := range samples {
		rf := replayFile{Harness: ex.Fn.String(), Tier: tier, Inputs: s.Inputs}
		b, _ := json.Marshal(rf)
		f := filepath.Join(wd, fmt.Sprintf("s%d.json", k))
		os.WriteFile(f, b, 0o644)
		files = append(files, f)
	}
	bin, err := buildNative(ov, hr.Spec.Pkg, []string{hr.Spec.Fn})
	if err != nil {
		hr.ValidationMismatch = append(hr.ValidationMismatch, err.Error())
		return
	}
	defer os.RemoveAll(filepath.Dir(bin))
	res, err := runNative(bin, files)
	if err != nil {
		hr.ValidationMismatch = append(hr.ValidationMismatch, err.Error())
	}
	for k, s := range samples {
		nr := res[files[k]]
		if nr == nil {
			hr.ValidationMismatch = append(hr.ValidationMismatch, fmt.Sprintf("sample %d: no native result", k))
			continue
		}
		if nr.Outcome != "ok" {
			hr.ValidationMismatch = append(hr.ValidationMismatch, fmt.Sprintf("sample %d (path %v): engine completed, native outcome=%s label=%q msg=%q inputs=%v", k, s.Path, nr.Outcome, nr.Label, nr.Msg, s.Inputs))
			continue
		}
		if len(nr.Obs) != len(s.Obs) {
			hr.ValidationMismatch = append(hr.ValidationMismatch, fmt.Sprintf("sample %d: %d observations natively, %d in engine", k, len(nr.Obs), len(s.Obs)))
			continue
		}
		ok := true
		for j := range s.Obs {
			if nr.Obs[j].Name != s.Obs[j].Name || nr.Obs[j].Value != s.Obs[j].Value {
				hr.ValidationMismatch = append(hr.ValidationMismatch, fmt.Sprintf("sample %d: observation %q engine=%q native=%q (inputs %v)", k, s.Obs[j].Name, s.Obs[j].Value, nr.Obs[j].Value, s.Inputs))
				ok = false
				break
			}
		}
		// cover points must agree as well
		if ok {
			ec := append([]string(nil), s.Covers...)
			nc := append([]string(nil), nr.Covers...)
			sort.Strings(ec)
			sort.Strings(nc)
			if strings.Join(ec, "|") != strings.Join(nc, "|") {
				hr.ValidationMismatch = append(hr.ValidationMismatch, fmt.Sprintf("sample %d: cover points engine=%v native=%v (inputs %v)", k, ec, nc, s.Inputs))
				ok = false
			}
		}
		if ok {
			hr.Validated++
		}
	}
}

func cmdReplay(args []string) int {
	fs := flag.NewFlagSet("replay", flag.ExitOnError)
	file := fs.String("file", "", "replay file")
	forceNative := fs.Bool("native", false, "replay natively even for a multi-threaded harness (development aid: the schedule is the Go scheduler's)")
	fs.Parse(args)
	b, err := os.ReadFile(*file)
	if err != nil {
		fmt.Println(err)
		return 2
	}
	rf := &replayFile{}
	if err := json.Unmarshal(b, rf); err != nil {
		fmt.Println(err)
		return 2
	}
	fnName := rf.Harness[strings.LastIndexByte(rf.Harness, '.')+1:]
	ov := overlayFiles(nil)
	if rf.Threads <= 1 || *forceNative {
		bin, err := buildNative(ov, rf.Pkg, []string{fnName})
		if err != nil {
			fmt.Println(err)
			return 2
		}
		defer os.RemoveAll(filepath.Dir(bin))
		res, err := runNative(bin, []string{*file})
		nr := res[*file]
		if nr == nil {
			fmt.Println("no result:", err)
			return 2
		}
		fmt.Printf("native replay: outcome=%s label=%q case=%q msg=%q\n%s\n", nr.Outcome, nr.Label, nr.Case, nr.Msg, nr.Stack)
		if nr.Outcome == "ok" {
			return 0
		}
		return 1
	}
	ld, err := load([]string{"./" + rf.Pkg}, ov)
	if err != nil {
		fmt.Println(err)
		return 2
	}
	fn := ld.pkgs[modPath+"/"+rf.Pkg].Func(fnName)
	cfg := interp.DefaultConfig()
	cfg.Preempt = rf.Preempt
	if rf.Unwind > 0 {
		cfg.Unwind = rf.Unwind
	}
	out, detail := interp.ConcreteRun(ld.prog, fn, ld.sizes, cfg, rf.Tier, rf.Inputs, rf.Nondet)
	fmt.Printf("SSA-level concrete replay: outcome=%q %s\n", out, detail)
	if out == "" {
		return 0
	}
	return 1
}
