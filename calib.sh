#!/bin/bash
# calibrate the thorough tier: run every property with a per-harness wall budget, no evidence
cd "$(dirname "$0")"; mkdir -p .work
B=${1:-8m}; shift
P=${@:-C01 C02 C03 C04 C05 C06 C07 C08 C09 C10 C11 C12 C13 C14 C15 C16 C17 C18 C19 C20}
for p in $P; do
  s=$(date +%s)
  GOSMT_VERIF_DIR=$PWD ./bin/gosmt run -prop $p -tier thorough -no-evidence -budget $B -workers 12 > .work/calib_$p.log 2>&1
  rc=$?
  echo "$p rc=$rc $(( $(date +%s)-s ))s"
  grep -E "^gosmt: [a-z].*paths=|INCONCLUSIVE|VACUOUS|VIOLATION|MISMATCH|NOT REPRO" .work/calib_$p.log | cut -c1-260
done
echo finished
