#!/bin/bash
# dev helper: run every registered check of a tier, print one line each
cd "$(dirname "$0")"
tier=${1:-quick}; shift
props=${@:-$(python3 -c "import json;print(' '.join(p['id'] for p in json.load(open('harness/props.json'))['props']))")}
mkdir -p .work
for p in $props; do
  s=$(date +%s)
  ./check $p $tier > .work/run_${tier}_$p.log 2>&1; rc=$?
  echo "$p exit=$rc $(( $(date +%s)-s ))s $(grep -c '^VIOLATION' .work/run_${tier}_$p.log) viol; $(grep -m2 'INCONCLUSIVE x\|VACUOUS\|MISMATCH\|NOT REPRODUCED' .work/run_${tier}_$p.log | cut -c1-160 | tr '\n' ' ')"
done
echo finished
