#!/bin/bash
# dev helper: run every registered check of a tier, print one line each
tier=${1:-quick}; shift
props=${@:-$(python3 -c "import json;print(' '.join(p['id'] for p in json.load(open('/verif/harness/props.json'))['props']))")}
for p in $props; do
  s=$(date +%s)
  ./check $p $tier > .work/run_$p.log 2>&1; rc=$?
  echo "$p exit=$rc $(( $(date +%s)-s ))s $(grep -c '^VIOLATION' .work/run_$p.log) viol; $(grep -m2 'INCONCLUSIVE x\|VACUOUS\|MISMATCH\|NOT REPRODUCED' .work/run_$p.log | cut -c1-160 | tr '\n' ' ')"
done
