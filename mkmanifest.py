#!/usr/bin/env python3
"""Regenerates MANIFEST.json from harness/props.json and manifest_text.json."""
import json, os
V = '/verif'
props = json.load(open(f'{V}/harness/props.json'))['props']
text = json.load(open(f'{V}/manifest_text.json'))
allids = [json.loads(l)['id'] for l in open(f'{V}/properties.jsonl')]
claimed = {p['id']: p for p in props if p['harnesses']}
checks, na = [], []
for pid in allids:
    t = text.get(pid, {})
    if pid in claimed and not t.get('not_applicable'):
        p = claimed[pid]
        checks.append({
            "property_id": pid,
            "quick_cmd": f"./check {pid} quick",
            "thorough_cmd": f"./check {pid} thorough",
            "evidence_file": f"/verif/evidence/{pid}.json",
            "replay_cmd_template": "./bin/gosmt replay -file {path}",
            "engine": "gosmt",
            "level_claimed": {"category": "model_checking", "text": t.get('level', ''), "design_ref": f"DESIGN.md section 4, {pid}"},
            "level_note": t.get('note', ''),
            "technique": "bounded symbolic execution of the go/ssa form of the real code; every branch, choice and assertion decided by an SMT solver (z3 5.1.0, cvc5 cross-check in the thorough tier); counterexamples replayed natively",
        })
    else:
        na.append({"property_id": pid, "reason": t.get('not_applicable', 'harness not delivered in this session; not claimed')})
m = {
    "version": 1,
    "setup_cmd": "cd /verif/engine && env GOFLAGS=-mod=mod GOPROXY=off GOSUMDB=off GOTOOLCHAIN=local PATH=/opt/veriftools/go1.26.8/bin:$PATH go build -o /verif/bin/gosmt ./cmd/gosmt",
    "hooks": {
        "guard": "verif",
        "enable": "none needed: harnesses are overlay packages (go/packages Overlay, go test -overlay) mirrored from /verif/harness into /repo paths; /repo carries no hook code",
        "baseline_off_cmd": json.load(open('/root/.vp/BASELINE.json'))['cmd'],
        "source_commits": [],
        "add_only": True,
    },
    "engines": [{"name": "gosmt", "path": "/verif/engine", "serves_properties": sorted(claimed), "kind_free_text": "symbolic executor for Go on go/ssa (fork of x/tools ssa/interp) + SMT (z3/cvc5), DFS by re-execution, native replay of models"}],
    "checks": checks,
    "not_applicable": na,
    "notes": "exit 0 = held within the stated bounds; exit 1 = reproduced violation (VIOLATION line); exit 2 = inconclusive (unsupported construct, unwinding failure, solver unknown, vacuity, non-reproducing model) - never a VIOLATION line. Known findings: /verif/known_findings.json.",
}
json.dump(m, open(f'{V}/MANIFEST.json', 'w'), indent=1)
print('checks:', [c['property_id'] for c in checks], 'n/a:', len(na))
